"""C13 - transaction construction conserves value to the satoshi.

1. model: TLC checks the rule book (spec/TxRules.tla) on integers (TxBuild.tla: closed form,
   round-robin Deal machine, uniqueness of the solution, error iff insufficient, fee lemma,
   scaling lemma), the limb arithmetic used for large amounts (Limbs.tla), the
   authentication procedure (Unspents.tla, every tx x every database in bounds) and the
   decimal digit shuffling (CoinDecimal.tla); four deliberately wrong closed forms must be
   rejected by the lemmas.
2. spec -> code: TLC prints every request with the demanded outcome (MC_TxBuildReplay), every
   (transaction, database) pair with the verdict (MC_UnspentsReplay), every grid amount with its
   texts (MC_CoinDecimalReplay); pycoin executes them (create_tx through three entry points and
   three spendable forms, tx.fee/total_in/total_out/unspents, validate_unspents, convention.*),
   also scaled to realistic amounts through the scaling lemma's linear forms.
3. code -> spec: seeded random scenarios with amounts up to 21e14 are executed on pycoin, logged
   with amounts as base-10^4 limbs, and validated by TLC against Trace_TxBuild.tla.
"""
from __future__ import annotations

import copy
import hashlib
import json
import os
import random
import tempfile
from fractions import Fraction

from ..ctx import MachineryError
from ..par import NPROC, split

BIGK = 840 * 10 ** 9
MAX_MONEY = 21 * 10 ** 14


def _drv():
    from ..drv import txbuild
    return txbuild


# ------------------------------------------------------------------ judging one build

def _judge_build(exp, got):
    """exp: dict(err, mayerr, ins, unsp, outs, tin, tout, rfee, pays, fee)   got: projection or {"exc"}.
    Returns None or (class, text)."""
    if "exc" in got:
        if exp["err"] or exp["mayerr"]:
            return None
        return ("expected=tx|got=exc:%s" % got["exc"], "create_tx raised %s(%s)" % (got["exc"], got.get("msg")))
    if exp["err"]:
        return ("expected=error|got=tx", "insufficient funds produced a transaction with outputs %s fee %s" % (
            got["outs"], got["fee"]))
    if got["outs"] != exp["outs"]:
        go, eo = got["outs"], exp["outs"]
        if len(go) != len(eo) or [o[0] for o in go] != [o[0] for o in eo]:
            cls = "outputs-reordered"
        elif any(p[1] != 0 and g[1] != p[1] for g, p in zip(go, exp["pays"])):
            cls = "fixed-output-changed"
        elif exp["nu"] and sum(o[1] for o in go) + exp["fee"] != exp["tin"]:
            cls = "conservation"
        elif any(p[1] == 0 and g[1] <= 0 for g, p in zip(go, exp["pays"])):
            cls = "non-positive-output"
        else:
            cls = "split"
        return ("outs:" + cls, "outputs %s, rule book demands %s" % (go, eo))
    if got["ins"] != exp["ins"]:
        return ("pairing:inputs", "inputs spend %s, spendables were %s" % (got["ins"], exp["ins"]))
    want_un = [[u[0], u[1], i[0], i[1]] for u, i in zip(exp["unsp"], exp["ins"])]
    if got["unsp"] != want_un:
        return ("pairing:unspents", "tx.unspents %s, expected %s" % (got["unsp"], want_un))
    if (got["tin"], got["tout"], got["fee"]) != (exp["tin"], exp["tout"], exp["rfee"]):
        return ("fee", "total_in/total_out/fee %s, expected %s" % (
            (got["tin"], got["tout"], got["fee"]), (exp["tin"], exp["tout"], exp["rfee"])))
    return None


def _lin(f, K):
    return f[0] * (K // f[1]) + f[2]


_SP_FORMS = ("obj", "text", "dict")
_UN_FORMS = ("bare", "zero")
_ENTRIES = ("network", "core", "pool")


def _variation(rec):
    h = hashlib.blake2b(json.dumps([rec["sps"], rec["pays"], rec["fee"]]).encode(), digest_size=4).digest()
    return _SP_FORMS[h[0] % 3], _UN_FORMS[h[1] % 2], _ENTRIES[h[2] % 3], h[3]


def _exp_small(rec):
    return {"err": rec["err"], "mayerr": rec["mayerr"], "ins": rec["ins"], "unsp": rec["unsp"],
            "outs": rec["outs"], "tin": rec["tin"], "tout": rec["tout"], "rfee": rec["rfee"],
            "pays": rec["pays"], "fee": rec["fee"], "nu": rec["nu"]}


def _scaled(rec, sc, K):
    """concretise the scaled request and the expectation (linear forms of the scaling lemma)"""
    r = sc["r"]
    sps = [[s[0], s[1], K * s[2] + (r if i == 0 else 0), s[3]] for i, s in enumerate(rec["sps"])]
    pays = [[p[0], K * p[1]] for p in rec["pays"]]
    fee = K * rec["fee"]
    exp = {"err": sc["err"], "mayerr": sc["mayerr"], "pays": pays, "fee": fee, "nu": rec["nu"]}
    if not sc["err"]:
        exp["ins"] = [[s[0], s[1]] for s in sps]
        exp["unsp"] = [[s[2], s[3]] for s in sps]
        exp["outs"] = [[p[0], _lin(f, K)] for p, f in zip(pays, sc["outs"])]
        exp["tin"] = sum(s[2] for s in sps)
        exp["tout"] = sum(o[1] for o in exp["outs"])
        exp["rfee"] = _lin(sc["fee"], K)
    return sps, pays, fee, exp


def _pool_class(rec):
    tin = sum(s[2] for s in rec["sps"])
    pool = tin - sum(p[1] for p in rec["pays"]) - rec["fee"]
    nu = rec["nu"]
    if nu == 0:
        return "allfixed:" + ("over" if pool < 0 else "exact" if pool == 0 else "under")
    if pool < 0:
        return "neg"
    if pool < nu:
        return "short"
    return "n%d:q%s:r%d" % (nu, "1" if pool // nu == 1 else "+", pool % nu)


def _build_chunk(args):
    recs, check_r2 = args
    drv = _drv()
    fails = []
    classes = set()
    nexec = 0
    for rec in recs:
        spf, unf, entry, hb = _variation(rec)
        if check_r2 and not rec["err"] and rec["nu"]:
            # R2 on the export itself: what TLC printed conserves value
            if sum(o[1] for o in rec["outs"]) + rec["fee"] != sum(s[2] for s in rec["sps"]):
                raise MachineryError("exported record does not conserve value: %r" % (rec,))
        pat = "".join("u" if p[1] == 0 else "f" for p in rec["pays"])
        pc = _pool_class(rec)
        classes.add((pat, pc, len(rec["sps"])))
        if "_got" in rec:      # binding self-test: a canned observation instead of an execution
            got, tx, w = rec["_got"], None, None
        else:
            got, tx, w = drv.build(rec["sps"], rec["pays"], rec["fee"], spf, unf, entry)
        nexec += 1
        v = _judge_build(_exp_small(rec), got)
        if v:
            fails.append(("C13|build|%s|%s" % (pc.split(":")[0] if pc[0] == "n" else pc, v[0]),
                          "create_tx(%s, %s, fee=%s) [%s/%s/%s]: %s" % (rec["sps"], rec["pays"], rec["fee"], spf, unf, entry, v[1]),
                          {"rec": rec, "got": got, "forms": [spf, unf, entry]}))
        elif tx is not None and hb % 8 == 0:
            # the honest database backs the spendables: validate_unspents returns the same fee
            try:
                r = tx.validate_unspents({t.hash(): t for t in w.sources.values()})
                ok = r == rec["rfee"]
            except Exception as e:
                r, ok = type(e).__name__, False
            nexec += 1
            if not ok:
                fails.append(("C13|validate|honest|expected=ret|got=%s" % (r if isinstance(r, str) else "fee"),
                              "validate_unspents on the honest database gave %r, expected fee %r" % (r, rec["rfee"]),
                              {"rec": rec}))
        for sc in rec.get("sc") or ():
            maxamt = max(s[2] for s in rec["sps"])
            kmax = ((MAX_MONEY - sc["r"]) // maxamt) // 12 * 12
            for K in (12, BIGK, kmax):
                sps, pays, fee, exp = _scaled(rec, sc, K)
                got, _, _ = drv.build(sps, pays, fee, spf, unf, entry)
                nexec += 1
                v = _judge_build(exp, got)
                if v:
                    fails.append(("C13|build-scaled|%s|%s" % (pc.split(":")[0] if pc[0] == "n" else pc, v[0]),
                                  "create_tx(%s, %s, fee=%s) (request x %d, +%d): %s" % (sps, pays, fee, K, sc["r"], v[1]),
                                  {"rec": dict(rec, sc=[sc]), "K": K, "got": got}))
                    break
    return nexec, fails, classes


def _validate_chunk(recs):
    drv = _drv()
    fails = []
    n = 0
    for rec in recs:
        kinds = "+".join(sorted(m[0] for m in rec["muts"])) or "none"
        for mult in (1, 10 ** 8, 3 * 10 ** 14):
            got = rec["_got"] if "_got" in rec else drv.validate_case(rec, mult)
            n += 1
            if rec["status"] == "raise":
                if "exc" not in got:
                    fails.append(("C13|validate|%s|expected=raise|got=return" % kinds,
                                  "validate_unspents returned %r although %s (inputs %s record %s; db %s)" % (
                                      got["ret"], rec["why"], rec["ins"], rec["unsp"], rec["db"]), {"rec": rec, "mult": mult}))
                    break
            else:
                if got.get("ret") != rec["fee"] * mult:
                    fails.append(("C13|validate|%s|expected=ret|got=%s" % (kinds, got.get("exc", "other-fee")),
                                  "validate_unspents gave %r, expected to return fee %d" % (got, rec["fee"] * mult),
                                  {"rec": rec, "mult": mult}))
                    break
    return n, fails


def _conv_chunk(args):
    recs, check_r2 = args
    drv = _drv()
    fails = []
    n = 0
    for rec in recs:
        D = rec["D"]
        unit = "btc" if D == 8 else "mbtc"
        sat = "".join(rec["sat"])
        coin = "".join(rec["coin"])
        # R2: the spec's text against exact rationals (stdlib)
        if check_r2 and Fraction(coin) != Fraction(int(sat), 10 ** D):
            raise MachineryError("CoinDecimal: %s satoshi -> %s %s is not exact" % (sat, coin, unit))
        got = rec["_got"] if "_got" in rec else drv.sat_to_coin(D, int(sat))
        n += 1
        if not drv.same_amount_text(got, coin):
            fails.append(("C13|conv|satoshi_to_%s|%s" % (unit, "exc" if got[:1] == "!" else "inexact"),
                          "satoshi_to_%s(%s) = %s, exact value is %s" % (unit, sat, got, coin), {"rec": rec, "got": got}))
        for text, want in rec["texts"]:
            t = "".join(text)
            want = "".join(want)
            if check_r2 and Fraction(t) * 10 ** D != int(want):
                raise MachineryError("CoinDecimal: %s %s -> %s satoshi is not exact" % (t, unit, want))
            forms = ["str", "decimal"] + (["int"] if "." not in t else [])
            for form in forms:
                if form == "int":
                    try:
                        g = drv.TO_SAT[D](int(t))
                        g = str(g) if isinstance(g, int) and not isinstance(g, bool) else "?%r" % (g,)
                    except Exception as e:
                        g = "!" + type(e).__name__
                else:
                    g = drv.coin_to_sat(D, t, form)
                if "_got" in rec:
                    g = rec["_got2"]
                n += 1
                if g != want:
                    fails.append(("C13|conv|%s_to_satoshi|%s|%s" % (unit, form, "exc" if g[:1] == "!" else "inexact"),
                                  "%s_to_satoshi(%r as %s) = %s, exact value is %s" % (unit, t, form, g, want),
                                  {"rec": rec, "text": t, "got": g}))
    return n, fails


_QUERIES = ("tin", "tout", "fee", "validate")


def _seq(x):
    return [] if isinstance(x, dict) else x     # (ToJson prints an empty set nested in a record as {} or [])


def _session_exec(ses, world, act, mult):
    """perform one action of TxSession on the object"""
    k = act[0]
    sc = lambda lst: [(a * mult, x) for a, x in lst]
    dbe = lambda name: [dict(e, outs=sc(e["outs"])) for e in world["dbs"][name]]
    if k == "tin":
        return ses.total_in()
    if k == "tout":
        return ses.total_out()
    if k == "fee":
        return ses.fee()
    if k == "validate":
        return ses.validate(dbe(act[1]))
    if k == "set":
        return ses.set_unspents(sc(world["lists"][act[1] - 1]))
    if k == "assign":
        return ses.assign(sc(world["lists"][act[1] - 1]))
    if k == "fromdb":
        return ses.from_db(dbe(act[1]))
    if k == "append":
        t, a = world["pays"][act[1] - 1]
        return ses.append_out(t, a * mult)
    if k == "replace":
        t, a = world["pays"][act[2] - 1]
        return ses.replace_out(act[1], t, a * mult)
    if k == "remove_in":
        return ses.remove_in()
    if k == "append_in":
        return ses.append_in(act[1], act[2])
    raise MachineryError("unknown session action %r" % (act,))


def _scale_r(r, mult):
    return ["val", r[1] * mult] if r[0] == "val" else list(r)


def _session_chunk(args):
    world, recs = args
    drv = _drv()
    fails = []
    n = 0
    for rec in recs:
        h = hashlib.blake2b(json.dumps(rec["acts"]).encode(), digest_size=2).digest()
        mult = (1, 10 ** 8, 3 * 10 ** 14)[h[0] % 3]
        sc = lambda lst: [(a * mult, x) for a, x in lst]
        truth = {s: sc(o) for s, o in enumerate(world["truth"], 1)}
        born = rec.get("born", 1)
        if "_got" in rec:
            ses = None
        else:
            ses = drv.Session(world["ins"], truth, sc(world["lists"][born - 1]), [(t, a * mult) for t, a in world["outs0"]], style=h[1])
        last_writer = "new" if born == 1 else "new(%s unspents than inputs)" % ("fewer" if len(world["lists"][born - 1]) < len(world["ins"]) else "more")
        for j, (act, ob) in enumerate(zip(rec["acts"], rec["obs"])):
            # the admissible answers: what the spec's (refusing) machine says, and what else the standard admits
            allowed = [_scale_r(ob["r"], mult)] + [_scale_r(x, mult) for x in _seq(ob.get("also", []))]
            w_un = [[a * mult, x] for a, x in ob["un"]]
            w_outs = [[t, a * mult] for t, a in ob["outs"]]
            w_ins = [list(x) for x in ob["ins"]] if "ins" in ob else None
            if ses is None:        # binding self-test: canned observations
                got, fields, gins = rec["_got"][j], (w_un, w_outs), w_ins
            else:
                got = _session_exec(ses, world, act, mult)
                fields, gins = ses.fields(), ses.in_fields()
            n += 1
            sess = "session %s%s x%d, action %d %s" % ("" if born == 1 else "born with list %d, " % born, rec["acts"], mult, j + 1, act)

            def admitted(g):
                return ["raise"] in allowed if g[:1] == ["raise"] else g in allowed
            ok = admitted(got)
            if not ok:
                want = allowed if len(allowed) > 1 else allowed[0]
                if act[0] in _QUERIES:
                    # the same question to a fresh object with the same current fields
                    fr = None
                    if ses is not None:
                        f = ses.fresh([tuple(u) for u in w_un], [tuple(o) for o in w_outs], w_ins)
                        fr = _session_exec(f, world, act, mult)
                    kind = "history-dependent" if fr is not None and admitted(fr) else "value"
                    shape = "" if w_ins is None or len(w_un) == len(w_ins) else "|unspents%sinputs" % ("<" if len(w_un) < len(w_ins) else ">")
                    # (an answer that is wrong for fresh and long-lived objects alike does not depend on what was done last)
                    fails.append(("C13|session|%s|%s|after=%s%s" % (act[0], kind, last_writer, shape) if not (shape and kind == "value") else
                                  "C13|session|%s|value%s" % (act[0], shape),
                                  "%s: answered %s, the current fields (inputs %s, unspents %s, outputs %s) admit %s; a fresh object with "
                                  "these fields answers %s" % (sess, got, w_ins, w_un, w_outs, want, fr), {"rec": rec, "step": j, "got": got}))
                else:
                    fails.append(("C13|session|%s|expected=%s|got=%s" % (act[0], want[0], got[0]),
                                  "%s: %s, expected %s" % (sess, got, want), {"rec": rec, "step": j, "got": got}))
                break
            if [list(x) if x is not None else None for x in fields[0]] != w_un or [list(x) for x in fields[1]] != w_outs \
                    or (w_ins is not None and gins != w_ins):
                fails.append(("C13|session|%s|fields" % act[0],
                              "%s: the object now holds inputs %s unspents %s outputs %s, expected %s %s %s" % (
                                  sess, gins, fields[0], fields[1], w_ins, w_un, w_outs),
                              {"rec": rec, "step": j, "fields": fields}))
                break
            if act[0] not in _QUERIES and got == ["ok"]:
                last_writer = act[0]
        else:
            if ses is not None:
                # end of session: the long-lived object and a fresh one built from the final fields agree on all totals
                ob = rec["obs"][-1]
                f = ses.fresh([(a * mult, x) for a, x in ob["un"]], [(t, a * mult) for t, a in ob["outs"]], ob.get("ins"))
                mine = (ses.total_in(), ses.total_out(), ses.fee())
                theirs = (f.total_in(), f.total_out(), f.fee())
                n += 1
                if mine != theirs:
                    fails.append(("C13|session|final-totals|history-dependent|after=%s" % last_writer,
                                  "session %s x%d: total_in/total_out/fee %s, a fresh object with the same fields gives %s" % (
                                      rec["acts"], mult, mine, theirs), {"rec": rec, "mine": mine, "fresh": theirs}))
    return n, fails


class Stream:
    """feeds TLC's records to worker processes in chunks"""

    def __init__(self, fn, wrap=lambda c: c, chunk=300):
        import multiprocessing as mp
        self.pool = mp.get_context("fork").Pool(NPROC)
        self.fn, self.wrap, self.chunk = fn, wrap, chunk
        self.buf, self.pending, self.results, self.n = [], [], [], 0

    def feed(self, rec):
        self.buf.append(rec)
        self.n += 1
        if len(self.buf) >= self.chunk:
            self._flush()

    def _flush(self):
        if self.buf:
            self.pending.append(self.pool.apply_async(self.fn, (self.wrap(self.buf),)))
            self.buf = []
        while len(self.pending) > 6 * NPROC:
            self.results.append(self.pending.pop(0).get())

    def finish(self):
        self._flush()
        for p in self.pending:
            self.results.append(p.get())
        self.pool.close()
        self.pool.join()
        return self.results


def _report(ctx, fails):
    for key, what, detail in fails:
        ctx.fail(key, what, detail)


# ------------------------------------------------------------------ traces (code -> spec)

def _rand_amount(rnd):
    c = rnd.random()
    if c < 0.12:
        return rnd.choice([1, 2, 546, 9999, 10000, 10001, 10 ** 8 - 1, 10 ** 8, 10 ** 8 + 1, 99999999, 10 ** 12,
                           MAX_MONEY, MAX_MONEY - 1, 5 * 10 ** 9, 123456789012345])
    if c < 0.5:
        return int(10 ** rnd.uniform(0, 15.32))
    if c < 0.8:
        return rnd.randint(1, 10 ** 9)
    return rnd.randint(1, MAX_MONEY)


def _trace_scenario(rnd):
    """one scenario: request, optional lie in a spendable, databases to validate against, conversions"""
    drv = _drv()
    nin = rnd.choice([1, 1, 2, 2, 3, 4, 6])
    nsrc = rnd.randint(1, min(3, nin))
    # truth: sources with their outputs
    truth = {s: [] for s in range(1, nsrc + 1)}
    ins = []
    for i in range(nin):
        s = rnd.randint(1, nsrc) if i >= nsrc else i + 1
        truth[s].append((_rand_amount(rnd), rnd.randint(1, 4)))
        ins.append((s, len(truth[s]) - 1))
    for s in truth:
        for _ in range(rnd.randint(0, 2)):
            truth[s].append((_rand_amount(rnd), rnd.randint(1, 4)))
    rnd.shuffle(ins)
    src_tx = {s: drv.source_tx(s, truth[s]) for s in truth}
    hash_of = {s: t.hash() for s, t in src_tx.items()}
    label_of = {h: s for s, h in hash_of.items()}
    # what the spender was told (possibly a lie about one input)
    told = [[s, k, truth[s][k][0], truth[s][k][1]] for s, k in ins]
    lie = rnd.choice([None, None, None, None, "amount", "amount1", "script", "index", "index1"])
    j = rnd.randrange(nin)
    if lie == "amount":
        told[j][2] = _rand_amount(rnd) if rnd.random() < 0.5 else told[j][2] * 10
    elif lie == "amount1":
        told[j][2] += rnd.choice([-1, 1]) if told[j][2] > 1 else 1
    elif lie == "script":
        told[j][3] = told[j][3] % 4 + 1
    elif lie == "index":
        told[j][1] = len(truth[told[j][0]])
    elif lie == "index1":
        told[j][1] = len(truth[told[j][0]]) + rnd.randint(1, 3)
    tin = sum(t[2] for t in told)
    # payables
    npay = rnd.choice([1, 1, 2, 2, 3, 4, 5, 7])
    pays = []
    nu = 0
    budget = tin
    for i in range(npay):
        if rnd.random() < 0.5:
            pays.append([rnd.randint(1, 8), 0])
            nu += 1
        else:
            a = max(1, int(budget * rnd.uniform(0.0, 0.6))) if rnd.random() < 0.9 else _rand_amount(rnd)
            pays.append([rnd.randint(1, 8), a])
            budget = max(0, budget - a)
    fixed = sum(p[1] for p in pays)
    mode = rnd.random()
    if mode < 0.45 and nu:
        # boundary: the pool is nu + delta
        delta = rnd.choice([-2, -1, 0, 1, 2, nu, nu + 1, 2 * nu - 1, 2 * nu, rnd.randint(0, 50)])
        fee = tin - fixed - nu - delta
        if fee < 0:
            fee = rnd.choice([0, 1000])
    else:
        fee = rnd.choice([0, 0, 1, 1000, 10000, 12345, 10 ** 5, 10 ** 8, rnd.randint(0, 10 ** 6)])
    form = rnd.choice(["obj", "text", "dict"])
    unf = rnd.choice(["bare", "zero"])
    entry = rnd.choice(["network", "core", "pool"])
    L = drv.limbs
    ev = []
    spendables = []
    for s, k, a, sc in told:
        sp = drv.Spendable(a, drv.SCR[sc], hash_of[s], k)
        spendables.append(sp if form == "obj" else sp.as_text() if form == "text" else sp.as_dict())
    e = {"k": "build", "sps": [[s, k, L(a), sc] for s, k, a, sc in told], "pays": [[t, L(a)] for t, a in pays],
         "fee": L(fee), "err": False, "ins": [], "unsp": [], "outs": [], "tin": [], "tout": [], "fsign": 0, "fmag": []}
    tx = None
    try:
        if entry == "pool":
            objs = [drv.Spendable(a, drv.SCR[sc], hash_of[s], k) for s, k, a, sc in told]
            tx = drv.Tx(1, [o.tx_in() for o in objs], [drv.TxOut(a, drv.ADDR_SCRIPT[t]) for t, a in pays])
            tx.set_unspents(objs)
            drv.network.tx_utils.distribute_from_split_pool(tx, fee)
        elif entry == "core":
            tx = drv.core_tx_utils.create_tx(drv.network, spendables, drv.payables(pays, unf), fee=fee)
        else:
            tx = drv.network.tx_utils.create_tx(spendables, drv.payables(pays, unf), fee=fee)
    except Exception:
        tx = None
        e["err"] = True
    meta = {"told": told, "pays": pays, "fee": fee, "lie": lie, "forms": [form, unf, entry]}
    if tx is not None:
        p = drv.project_tx(tx, label_of)
        f = p["fee"]
        e.update({"ins": p["ins"], "unsp": [[L(u[0]), u[1]] for u in p["unsp"]],
                  "outs": [[o[0], L(o[1])] for o in p["outs"]], "tin": L(p["tin"]), "tout": L(p["tout"]),
                  "fsign": (f > 0) - (f < 0), "fmag": L(abs(f))})
        # the Spendable objects kept in tx.unspents must themselves name the outpoint of their input
        if any([u[2], u[3]] != i for u, i in zip(p["unsp"], p["ins"])):
            e["ins"] = [[0, 0]] * len(p["ins"])
    ev.append(e)
    if tx is not None:
        def mkdb(dbkind):
            entries = []
            db = {}
            victim = told[rnd.randrange(nin)][0]
            for s in range(1, nsrc + 1):
                if dbkind == "missing" and s == victim:
                    entries.append({"st": "missing", "id": 0, "outs": []})
                    continue
                if dbkind == "wrongtx" and s == victim:
                    # another transaction filed under this id; its outputs are what the spender believes
                    outs = list(truth[s])
                    db[hash_of[s]] = drv.source_tx(s, outs, salt=77)
                    entries.append({"st": "tx", "id": nsrc + 1, "outs": [[L(a), sc] for a, sc in outs]})
                    continue
                db[hash_of[s]] = src_tx[s]
                entries.append({"st": "tx", "id": s, "outs": [[L(a), sc] for a, sc in truth[s]]})
            return entries, db

        def do_validate(dbkind):
            entries, db = mkdb(dbkind)
            un = [[L(u.coin_value), drv.SCR_OF.get(u.script, 0)] for u in tx.unspents]
            try:
                r = tx.validate_unspents(db)
                return {"k": "validate", "unsp": un, "db": entries, "ret": True, "fsign": (r > 0) - (r < 0), "fmag": L(abs(r))}
            except Exception:
                return {"k": "validate", "unsp": un, "db": entries, "ret": False, "fsign": 0, "fmag": []}

        for dbkind in rnd.sample(["honest", "missing", "wrongtx", "honest"], rnd.randint(1, 2)):
            ev.append(do_validate(dbkind))
        # a session on the same object: edits and questions in random order (TxSession.tla)
        def ask(k, f):
            """total_in / fee of the object as it is: answered or refused"""
            try:
                v = f()
            except Exception:
                return {"k": k, "ok": False, "v": [], "fsign": 0, "fmag": []}
            return {"k": k, "ok": True, "v": L(v), "fsign": 0, "fmag": []} if k == "tin" else \
                {"k": k, "ok": True, "v": [], "fsign": (v > 0) - (v < 0), "fmag": L(abs(v))}

        for _ in range(rnd.choice([0, 3, 4, 5, 6, 8, 10])):
            c = rnd.random()
            if c < 0.14:
                ev.append(ask("tin", tx.total_in))
            elif c < 0.22:
                ev.append({"k": "tout", "v": L(tx.total_out())})
            elif c < 0.40:
                ev.append(ask("fee", tx.fee))
            elif c < 0.50:
                ev.append(do_validate(rnd.choice(["honest", "honest", "missing", "wrongtx"])))
            elif c < 0.56:
                # the inputs are edited after the unspents were installed
                if len(tx.txs_in) > 1 and rnd.random() < 0.5:
                    tx.txs_in.pop()
                    ev.append({"k": "remove_in"})
                else:
                    s_ = rnd.randint(1, nsrc)
                    k_ = rnd.randrange(len(truth[s_]) + 1)
                    tx.txs_in.append(drv.TxIn(hash_of[s_], k_))
                    ev.append({"k": "append_in", "inp": [s_, k_]})
            elif c < 0.74:
                kind = "set" if c < 0.65 else "assign"
                lst = [[u.coin_value, drv.SCR_OF.get(u.script, 1)] for u in tx.unspents] or [[_rand_amount(rnd), 1]]
                m = rnd.random()
                jj = rnd.randrange(len(lst))
                if m < 0.3 and len(lst) == nin == len(tx.txs_in):
                    lst = [[truth[s][k][0], truth[s][k][1]] if k < len(truth[s]) else lst[n] for n, (s, k) in enumerate((t[0], t[1]) for t in told)]
                elif m < 0.6:
                    lst[jj][0] = _rand_amount(rnd)
                elif m < 0.8:
                    lst[jj][0] = max(1, lst[jj][0] + rnd.choice([-1, 1]))
                else:
                    lst[jj][1] = lst[jj][1] % 4 + 1
                # a list of another length than the inputs: shorter, longer, or the right one again
                if rnd.random() < 0.2:
                    lst = lst[:-1] if rnd.random() < 0.5 else lst + [[_rand_amount(rnd), 1]]
                elif len(lst) != len(tx.txs_in) and rnd.random() < 0.5:
                    lst = (lst + [[_rand_amount(rnd), rnd.randint(1, 4)] for _ in tx.txs_in])[:len(tx.txs_in)]
                objs = []
                for n, (a, sc) in enumerate(lst):
                    if rnd.random() < 0.5 and n < nin:
                        objs.append(drv.Spendable(a, drv.SCR[sc], hash_of[told[n][0]], told[n][1]))
                    else:
                        objs.append(drv.TxOut(a, drv.SCR[sc]))
                ok = True
                if kind == "set":
                    try:
                        tx.set_unspents(objs)
                    except Exception:
                        ok = False
                else:
                    tx.unspents = objs
                ev.append({"k": kind, "un": [[L(a), sc] for a, sc in lst], "ok": ok})
            elif c < 0.84:
                entries, db = mkdb(rnd.choice(["honest", "honest", "missing", "wrongtx"]))
                ok = True
                try:
                    tx.unspents_from_db(db)
                except Exception:
                    ok = False
                ev.append({"k": "fromdb", "db": entries, "ok": ok})
            elif c < 0.92:
                t, a = rnd.randint(1, 8), _rand_amount(rnd)
                tx.txs_out.append(drv.TxOut(a, drv.ADDR_SCRIPT[t]))
                ev.append({"k": "append", "out": [t, L(a)]})
            else:
                i = rnd.randint(1, len(tx.txs_out))
                t, a = rnd.randint(1, 8), _rand_amount(rnd)
                if rnd.random() < 0.5:
                    tx.txs_out[i - 1] = drv.TxOut(a, drv.ADDR_SCRIPT[t])
                else:
                    tx.txs_out[i - 1].coin_value = a
                    tx.txs_out[i - 1].script = drv.ADDR_SCRIPT[t]
                ev.append({"k": "replace", "i": i, "out": [t, L(a)]})
    for _ in range(rnd.randint(1, 3)):
        D = rnd.choice([8, 5])
        n = _rand_amount(rnd) if rnd.random() < 0.9 else 0
        if rnd.random() < 0.5:
            ev.append({"k": "conv", "dir": "s2c", "D": D, "sat": list(str(n)), "coin": list(drv.sat_to_coin(D, n))})
        else:
            ip, fp = divmod(n, 10 ** D)
            frac = "%0*d" % (D, fp)
            style = rnd.choice(["full", "trim", "bare"])
            if style != "full":
                frac = frac.rstrip("0")
            text = str(ip) + ("." + frac if (frac or style == "trim") else "")
            ev.append({"k": "conv", "dir": "c2s", "D": D, "coin": list(text),
                       "sat": list(drv.coin_to_sat(D, text, rnd.choice(["str", "decimal"])))})
    return {"ev": ev, "meta": meta}


def record_traces(seed, count):
    rnd = random.Random(seed)
    return [_trace_scenario(rnd) for _ in range(count)]


def _record_chunk(args):
    seed, count = args
    return record_traces(seed, count)


def validate_traces(ctx, traces):
    data = [{"ev": t["ev"]} for t in traces]
    fd, path = tempfile.mkstemp(prefix="vf-c13-traces-", suffix=".json")
    with os.fdopen(fd, "w") as f:
        json.dump(data, f)
    try:
        r = ctx.tlc("Trace_TxBuild", "Trace_TxBuild", workers=1, env={"TRACE_FILE": path}, count=False, timeout=1500)
    finally:
        os.unlink(path)
    rej = None
    for rec in r.records:
        if isinstance(rec, dict) and rec.get("k") == "rejected":
            if rec["n"] != len(traces):
                raise MachineryError("trace run saw %s traces, %d were sent" % (rec["n"], len(traces)))
            rej = sorted(int(x) - 1 for x in rec["ids"])
    if rej is None:
        raise MachineryError("trace run printed no verdict: %s" % r.raw_tail[-5:])
    return rej


def _trace_key(t):
    """class of a rejected trace: the first event kind TLC could not have accepted is unknown to
    the harness, so classify by what the scenario contains"""
    ev = t["ev"]
    b = ev[0]
    kinds = "build-err" if b["err"] else "build"
    if any(e["k"] == "validate" and e["ret"] for e in ev):
        kinds += "+validate-ret"
    return "C13|trace|rejected|%s|lie=%s" % (kinds, t["meta"]["lie"])


def _canned_trace():
    """hand-made scenario with realistic amounts (self-test of the trace binding)"""
    L = _drv().limbs
    a1, a2 = MAX_MONEY - 1, 10003
    fee = 10001
    tin = a1 + a2
    q, r = divmod(tin - 50000 - fee, 3)
    assert r == 2
    outs = [[1, L(q + 1)], [2, L(50000)], [3, L(q + 1)], [4, L(q)]]
    build = {"k": "build", "sps": [[1, 0, L(a1), 1], [2, 1, L(a2), 2]],
             "pays": [[1, []], [2, L(50000)], [3, []], [4, []]], "fee": L(fee), "err": False,
             "ins": [[1, 0], [2, 1]], "unsp": [[L(a1), 1], [L(a2), 2]], "outs": outs,
             "tin": L(tin), "tout": L(tin - fee), "fsign": 1, "fmag": L(fee)}
    db = [{"st": "tx", "id": 1, "outs": [[L(a1), 1]]}, {"st": "tx", "id": 2, "outs": [[L(5), 1], [L(a2), 2]]}]
    v1 = {"k": "validate", "unsp": build["unsp"], "db": db, "ret": True, "fsign": 1, "fmag": L(fee)}
    v2 = {"k": "validate", "unsp": build["unsp"], "db": [db[0], {"st": "missing", "id": 0, "outs": []}],
          "ret": False, "fsign": 0, "fmag": []}
    c1 = {"k": "conv", "dir": "s2c", "D": 8, "sat": list(str(a1)), "coin": list("20999999.99999999")}
    c2 = {"k": "conv", "dir": "c2s", "D": 5, "sat": list("10003"), "coin": list("0.10003")}
    # a session on the same object: ask, replace the unspents past the checked setter, ask again ...
    ses = [{"k": "tin", "ok": True, "v": L(tin)},
           {"k": "assign", "un": [[L(a1 - 5), 1], [L(a2), 2]], "ok": True},
           {"k": "fee", "ok": True, "fsign": 1, "fmag": L(fee - 5)},
           {"k": "fromdb", "db": db, "ok": True},
           {"k": "tin", "ok": True, "v": L(tin)},
           {"k": "append", "out": [5, L(7)]},
           {"k": "tout", "v": L(tin - fee + 7)},
           {"k": "set", "un": [[L(1), 1]], "ok": False},
           {"k": "fee", "ok": True, "fsign": 1, "fmag": L(fee - 7)},
           # the last input goes; its unspent stays: refused, or the value of the entries paired with the inputs
           {"k": "remove_in"},
           {"k": "tin", "ok": False, "v": []},
           {"k": "tin", "ok": True, "v": L(a1)},
           {"k": "append_in", "inp": [2, 0]},
           {"k": "append_in", "inp": [2, 1]},
           {"k": "fee", "ok": False, "fsign": 0, "fmag": []}]
    return {"ev": [build, v1, v2, c1, c2] + ses, "meta": {"lie": "canned"}}


# ------------------------------------------------------------------ run

def run(ctx):
    q = ctx.quick
    only = getattr(ctx, "only", None)

    def stage(name):
        return only is None or name in only

    ctx.rule = ("model: every request with inputs/fixed outputs summing to <= MaxSum, <= 4 payables, fee <= MaxFee (TLC, exhaustive), "
                "every tx x database in MC_Unspents bounds; replay: every record printed by MC_TxBuildReplay / MC_UnspentsReplay / "
                "MC_CoinDecimalReplay executed on pycoin; distinct_nontrivial = distinct (fixed/unspecified pattern of the payables, "
                "pool class [negative, short, quotient 1 or more x remainder], number of inputs) + distinct discrepancy sets + digit lengths")
    ctx.assumptions += [
        "amounts are non-negative integers; fee >= 0; spendables are worth >= 1 satoshi",
        "when every output is fixed the property is silent about overspending: raising or building are both accepted",
        "amounts beyond TLC's 32-bit integers: scaling lemma (TLC-checked for K <= 840) and base-10^4 limb arithmetic (MC_Limbs)",
        "decimal texts are the spellings of whole satoshi amounts (<= 8 / 5 fractional digits); Decimal context precision is the default 28",
        "TLC/SANY, CPython",
    ]

    # ---------------------------------------------------------------- 1. model
    if stage("model"):
        w = 16
        ctx.tlc("TxBuild", "MC_TxBuild_q" if q else "MC_TxBuild_t", workers=w, coverage=not q, timeout=2400,
                require_actions=() if q else ("Pick", "Start", "DealOne", "Finish"))
        if not q:
            ctx.tlc("TxBuild", "MC_TxBuild_t2", workers=w, timeout=2400)
        ctx.tlc("TxBuild", "MC_TxBuild_uniq_q" if q else "MC_TxBuild_uniq_t", workers=w, timeout=2400)
        ctx.tlc("TxBuild", "MC_TxBuild_scale_q" if q else "MC_TxBuild_scale_t", workers=w, timeout=2400)
        for cfg in (("MC_Limbs_b3", "MC_Limbs_b10000") if q else ("MC_Limbs_b3", "MC_Limbs_b10", "MC_Limbs_b10000")):
            ctx.tlc("MC_Limbs", cfg, workers=4)
        ctx.tlc("MC_Unspents", "MC_Unspents_q" if q else "MC_Unspents_t", workers=w, coverage=not q, timeout=2400,
                require_actions=() if q else ("MPick", "MExamine", "MReturn"))
        ctx.tlc("MC_CoinDecimal", "MC_CoinDecimal_q" if q else "MC_CoinDecimal_t", workers=4 if q else w, timeout=2400)
        ctx.tlc("TxSession", "MC_TxSession_none", workers=4)
        ctx.tlc("TxSession", "MC_TxSession_all_writers", workers=4)
        r = ctx.tlc("TxSession", "MC_TxSession_set_only", expect_ok=False, count=False, workers=2)
        ctx.selftest("model_rejects_stale_memo", (not r.ok) and r.violated == "HistoryIndependent")
        # ... and an object that sums whatever list it holds, one entry per input or not
        r = ctx.tlc("TxSession", "MC_TxSession_unchecked", expect_ok=False, count=False, workers=1)
        ctx.selftest("model_rejects_unchecked_shape", (not r.ok) and r.violated == "HistoryIndependent")
        # teeth of the model: each wrong closed form must violate the rule book
        for v in ("late", "offbyone", "zero", "nofee"):
            r = ctx.tlc("TxBuild", "MC_TxBuild_mut_" + v, expect_ok=False, count=False, workers=2)
            ctx.selftest("model_rejects_" + v, (not r.ok) and r.violated == "BuildOK")

    if stage("apalache") and not q:
        _apalache(ctx)

    # ---------------------------------------------------------------- 2. spec -> code
    classes = set()
    if stage("build"):
        cfgs = (["MC_TxBuildReplay_q", "MC_TxBuildReplay_same_q", "MC_TxBuildReplay_scaled_q"] if q else
                ["MC_TxBuildReplay_t", "MC_TxBuildReplay_same_t", "MC_TxBuildReplay_scaled_t", "MC_TxBuildReplay_q"])
        for cfg in cfgs:
            st = Stream(_build_chunk, wrap=lambda c: (c, True), chunk=150 if "scaled" in cfg else 400)
            cnt = [0]

            def on(rec, st=st):
                if rec.get("k") != "build":
                    return
                cnt[0] += 1
                if cnt[0] % 40009 == 7:
                    ctx.sample({"build": {k: rec[k] for k in ("sps", "pays", "fee", "err", "outs", "rfee")}})
                st.feed(rec)
            ctx.tlc("MC_TxBuildReplay", cfg, on_record=on, keep_records=False, timeout=3000, workers=16)
            nexec = 0
            nf = 0
            for n, fails, cls in st.finish():
                nexec += n
                nf += len(fails)
                classes |= cls
                _report(ctx, fails)
            if st.n == 0:
                raise MachineryError("no build record exported by " + cfg)
            ctx.log("replayed %d requests of %s (%d executions on pycoin): %d disagree" % (st.n, cfg, nexec, nf))
            ctx.replayed += st.n
            ctx.case(None, nexec)
            ctx.action("replay." + cfg, st.n)
        for c in classes:
            ctx.case(("build",) + c, 0)
        # binding self-test (independent of pycoin): against a canned observation, the exported
        # expectation passes and each corruption of one expected value is rejected
        obs = {"ins": [[1, 0]], "unsp": [[7, 2, 1, 0]], "outs": [[1, 4], [2, 3]], "tin": 7, "tout": 7, "fee": 0}
        rec = {"k": "build", "sps": [[1, 0, 7, 2]], "pays": [[1, 0], [2, 0]], "fee": 0, "err": False, "mayerr": False,
               "ins": [[1, 0]], "unsp": [[7, 2]], "outs": [[1, 4], [2, 3]], "tin": 7, "tout": 7, "rfee": 0, "nu": 2, "sc": [],
               "_got": obs}
        f0 = _build_chunk(([rec], False))[1]
        f1 = _build_chunk(([dict(rec, outs=[[1, 3], [2, 4]])], False))[1]
        f2 = _build_chunk(([dict(rec, rfee=1)], False))[1]
        f3 = _build_chunk(([dict(rec, err=True, outs=[], ins=[], unsp=[])], False))[1]
        f4 = _build_chunk(([dict(rec, unsp=[[7, 1]])], False))[1]
        f5 = _build_chunk(([dict(rec, _got={"exc": "ValueError"})], False))[1]
        ctx.selftest("replay_rejects_corrupted_expectation",
                     not f0 and len(f1) == 1 and "split" in f1[0][0] and len(f2) == 1 and len(f3) == 1
                     and len(f4) == 1 and "pairing" in f4[0][0] and len(f5) == 1)

    if stage("signed"):
        _signed_subset(ctx)

    if stage("validate"):
        st = Stream(_validate_chunk, chunk=100)
        vkeys = set()

        def onv(rec):
            if rec.get("k") != "validate":
                return
            vkeys.add((tuple(sorted((m[0], m[2]) for m in rec["muts"])), len(rec["ins"]), rec["status"]))
            if st.n % 5003 == 11:
                ctx.sample({"validate": rec})
            st.feed(rec)
        ctx.tlc("MC_UnspentsReplay", "MC_UnspentsReplay_q" if q else "MC_UnspentsReplay_t", on_record=onv,
                keep_records=False, timeout=3000, workers=16)
        nexec = nf = 0
        for n, fails in st.finish():
            nexec += n
            nf += len(fails)
            _report(ctx, fails)
        if st.n == 0:
            raise MachineryError("no validate record exported")
        ctx.log("replayed %d (transaction, database) pairs (%d calls of validate_unspents): %d disagree" % (st.n, nexec, nf))
        ctx.replayed += st.n
        ctx.case(None, nexec)
        ctx.action("replay.MC_UnspentsReplay", st.n)
        for k in vkeys:
            ctx.case(("validate",) + k, 0)
        # binding self-test (independent of pycoin): canned observations against corrupted verdicts
        honest = {"k": "validate", "ins": [[2, 0]], "unsp": [[5, 1]], "outs": [[1, 2]],
                  "db": [{"st": "tx", "id": 1, "outs": [[5, 1], [5, 2], [7, 1]]}, {"st": "tx", "id": 2, "outs": [[5, 1]]}],
                  "truth": [[[5, 1], [5, 2], [7, 1]], [[5, 1]]], "muts": [], "status": "ret", "why": "ok", "fee": 0}
        g0 = _validate_chunk([dict(honest, _got={"ret": 0})])[1]
        g1 = _validate_chunk([dict(honest, status="raise", why="amount", _got={"ret": 0})])[1]
        g2 = _validate_chunk([dict(honest, _got={"ret": 1})])[1]
        g3 = _validate_chunk([dict(honest, _got={"exc": "BadSpendableError"})])[1]
        g4 = _validate_chunk([dict(honest, status="raise", why="script", _got={"exc": "BadSpendableError"})])[1]
        ctx.selftest("validate_replay_rejects_corrupted_verdict",
                     not g0 and len(g1) == 1 and len(g2) == 1 and len(g3) == 1 and not g4)

    if stage("session"):
        _session_stage(ctx, q)

    if stage("conv"):
        st = Stream(_conv_chunk, wrap=lambda c: (c, True), chunk=200)
        ckeys = set()

        def onc(rec):
            if rec.get("k") != "conv":
                return
            ckeys.add((rec["D"], len(rec["sat"]), len(rec["texts"])))
            if st.n % 2003 == 5:
                ctx.sample({"conv": {"D": rec["D"], "sat": "".join(rec["sat"]), "coin": "".join(rec["coin"])}})
            st.feed(rec)
        ctx.tlc("MC_CoinDecimalReplay", "MC_CoinDecimalReplay_q" if q else "MC_CoinDecimalReplay_t", on_record=onc,
                keep_records=False, timeout=3000, workers=8)
        nexec = nf = 0
        for n, fails in st.finish():
            nexec += n
            nf += len(fails)
            _report(ctx, fails)
        if st.n == 0:
            raise MachineryError("no conv record exported")
        ctx.log("replayed %d amounts x units (%d conversion calls): %d disagree" % (st.n, nexec, nf))
        ctx.replayed += st.n
        ctx.case(None, nexec)
        ctx.action("replay.MC_CoinDecimalReplay", st.n)
        for k in ckeys:
            ctx.case(("conv",) + k, 0)
        # binding self-test (independent of pycoin)
        rec = {"k": "conv", "D": 8, "sat": list("29"), "coin": list("0.00000029"),
               "texts": [[list("0.00000029"), list("29")]], "_got": "0.00000029", "_got2": "29"}
        h0 = _conv_chunk(([rec], True))[1]
        h1 = _conv_chunk(([dict(rec, texts=[[list("0.00000029"), list("28")]])], False))[1]
        h2 = _conv_chunk(([dict(rec, coin=list("0.00000028"))], False))[1]
        h3 = _conv_chunk(([dict(rec, _got="2.9E-7")], False))[1]
        h4 = _conv_chunk(([dict(rec, _got="0.29E-6", coin=list("0.0000003"))], False))[1]
        ctx.selftest("conv_replay_rejects_corrupted_expectation",
                     not h0 and len(h1) == 2 and len(h2) == 1 and len(h3) == 1 and len(h4) == 1)

    # ---------------------------------------------------------------- 3. code -> spec
    if stage("traces"):
        ntr = 1200 if q else 12000
        per = 300
        import multiprocessing as mp
        jobs = [(ctx.seed * 104729 + 13 * 1000003 + i, per) for i in range(ntr // per)]
        with mp.get_context("fork").Pool(min(NPROC, len(jobs))) as pool:
            chunks = pool.map(_record_chunk, jobs)
        traces = [t for c in chunks for t in c]
        stats = {"built": 0, "error": 0, "validate_ret": 0, "validate_raise": 0, "conv": 0, "query": 0,
                 "writer_ok": 0, "writer_raise": 0, "query_after_unchecked_writer": 0,
                 "query_fewer_unspents_than_inputs": 0, "query_more_unspents_than_inputs": 0, "input_edits": 0}
        for t in traces:
            stats["error" if t["ev"][0]["err"] else "built"] += 1
            asked = False
            stale = False
            n_in, n_un = len(t["ev"][0]["ins"]), len(t["ev"][0]["unsp"])
            for e in t["ev"][1:]:
                if e["k"] in ("tin", "fee", "validate") and n_in != n_un:
                    stats["query_fewer_unspents_than_inputs" if n_un < n_in else "query_more_unspents_than_inputs"] += 1
                if e["k"] in ("remove_in", "append_in"):
                    n_in += 1 if e["k"] == "append_in" else -1
                    stats["input_edits"] += 1
                elif e["k"] in ("set", "assign") and e["ok"]:
                    n_un = len(e["un"])
                elif e["k"] == "fromdb" and e["ok"]:
                    n_un = n_in
                if e["k"] == "validate":
                    stats["validate_ret" if e["ret"] else "validate_raise"] += 1
                elif e["k"] == "conv":
                    stats["conv"] += 1
                elif e["k"] in ("tin", "tout", "fee"):
                    stats["query"] += 1
                    if stale and e["k"] != "tout":
                        stats["query_after_unchecked_writer"] += 1
                    asked = True
                elif e["k"] in ("append", "replace", "remove_in", "append_in") or e["ok"]:
                    stats["writer_ok"] += 1
                    if asked and e["k"] in ("assign", "fromdb"):
                        stale = True
                else:
                    stats["writer_raise"] += 1
        ctx.extra["trace_events"] = stats
        if min(stats.values()) == 0:
            raise MachineryError("trace recorder produced no event of some kind: %s" % stats)
        for ci, chunk in enumerate(split(traces, max(1, len(traces) // 1500))):
            rej = validate_traces(ctx, chunk)
            ctx.traces += len(chunk) - len(rej)
            ctx.case(None, sum(len(t["ev"]) for t in chunk))
            if ci == 0:
                ctx.sample({"trace": chunk[0]["ev"]})
            for i in rej:
                t = chunk[i]
                ctx.fail(_trace_key(t), "recorded pycoin execution is not allowed by TxRules/UnspentRules/CoinDecimal: %s" % (
                    json.dumps(t["meta"]),), t)
        ctx.log("trace events: %s" % stats)
        # binding self-test (independent of pycoin): a canned scenario is accepted, each corruption
        # of one logged field is rejected
        g = _canned_trace()
        L = _drv().limbs

        def val(x):
            return sum(d * 10000 ** k for k, d in enumerate(x))
        b1 = copy.deepcopy(g)        # one satoshi moved from the first unspecified output to the last (sum preserved)
        o = b1["ev"][0]["outs"]
        o[0][1], o[3][1] = L(val(o[0][1]) - 1), L(val(o[3][1]) + 1)
        b2 = copy.deepcopy(g)        # reported fee off by one
        b2["ev"][0]["fmag"] = L(val(b2["ev"][0]["fmag"]) + 1)
        b3 = copy.deepcopy(g)        # validate_unspents "returned" against a database that misses a source
        b3["ev"][2]["ret"] = True
        b4 = copy.deepcopy(g)        # conversion off by one satoshi
        b4["ev"][3]["sat"] = list(str(int("".join(b4["ev"][3]["sat"])) + 1))
        b5 = copy.deepcopy(g)        # second input paired with another script
        b5["ev"][0]["unsp"][1][1] = 3
        b6 = copy.deepcopy(g)        # a transaction although one unspecified output would get nothing
        b6["ev"][0]["fee"] = L(val(g["ev"][0]["tin"]) - 50000 - 2)
        b6["ev"][0]["fmag"] = b6["ev"][0]["fee"]
        b6["ev"][0]["outs"] = [[1, L(1)], [2, L(50000)], [3, L(1)], [4, []]]
        b6["ev"][0]["tout"] = L(50002)
        b7 = copy.deepcopy(g)        # honest database but the call "raised"
        b7["ev"][1]["ret"] = False
        b8 = copy.deepcopy(g)        # inputs in another order than the spendables
        b8["ev"][0]["ins"] = b8["ev"][0]["ins"][::-1]
        b9 = copy.deepcopy(g)        # error although the funds suffice
        b9["ev"] = [dict(g["ev"][0], err=True, ins=[], unsp=[], outs=[], tin=[], tout=[], fsign=0, fmag=[])]
        b10 = copy.deepcopy(g)       # stale fee: the answer of before the direct assignment of tx.unspents
        b10["ev"][7]["fmag"] = g["ev"][0]["fmag"]
        b11 = copy.deepcopy(g)       # stale total_in after unspents_from_db
        b11["ev"][9]["v"] = L(val(g["ev"][5]["v"]) - 5)
        b12 = copy.deepcopy(g)       # stale total_out after an output was appended
        b12["ev"][11]["v"] = g["ev"][0]["tout"]
        b13 = copy.deepcopy(g)       # the checked setter "accepted" a list of the wrong length
        b13["ev"][12]["ok"] = True
        b14 = copy.deepcopy(g)       # unspents_from_db "raised" although the database holds every source
        b14["ev"][8]["ok"] = False
        b15 = copy.deepcopy(g)       # total_in that counts an unspent whose input was removed
        b15["ev"][16]["v"] = g["ev"][0]["tin"]
        b16 = copy.deepcopy(g)       # a fee although an input has no unspent
        b16["ev"][19] = dict(g["ev"][13])
        rej = validate_traces(ctx, [g, b1, b2, b3, b4, b5, b6, b7, b8, b9, b10, b11, b12, b13, b14, b15, b16])
        ctx.selftest("trace_rejects_corrupted_field", rej == list(range(1, 17)))
    ctx.exhaustive = True


# ------------------------------------------------------------------ sessions (history)

def _session_stage(ctx, q):
    # objects born with one unspent per input (long sessions) and with a list of another length (shorter ones)
    world = None
    # (thorough: sessions of 4 actions with the writers tried on 4 of the 6 lists - two of the three lists of the right
    # length that lie about one value are left to the sessions of 3 actions, which the thorough tier runs as well)
    for cfg in (("MC_TxSessionReplay_q", "MC_TxSessionReplay_qb") if q else
                ("MC_TxSessionReplay_t", "MC_TxSessionReplay_q", "MC_TxSessionReplay_tb")):
        world = _session_cfg(ctx, cfg)
    _session_selftest(ctx, world)


def _session_cfg(ctx, cfg):
    r = ctx.tlc("MC_TxSessionReplay", cfg, workers=16, timeout=2400)
    worlds = [x for x in r.records if isinstance(x, dict) and x.get("k") == "world"]
    recs = [x for x in r.records if isinstance(x, dict) and x.get("k") == "session"]
    if len(worlds) != 1 or not recs:
        raise MachineryError("session export: %d world records, %d sessions" % (len(worlds), len(recs)))
    world = worlds[0]
    st = Stream(_session_chunk, wrap=lambda c: (world, c), chunk=500)
    shapes = set()
    for i, rec in enumerate(recs):
        shapes.add(tuple(a[0] for a in rec["acts"]))
        if i % 50021 == 17:
            ctx.sample({"session": rec})
        st.feed(rec)
    n = nf = 0
    for k, fails in st.finish():
        n += k
        nf += len(fails)
        _report(ctx, fails)
    ctx.log("replayed %d sessions of %s on one Tx object each (%d actions compared): %d disagree" % (len(recs), cfg, n, nf))
    ctx.replayed += len(recs)
    ctx.case(None, n)
    ctx.action("replay." + cfg, len(recs))
    for sh in shapes:
        ctx.case(("session", cfg[-1] == "b") + sh, 0)
    return world


def _session_selftest(ctx, world):
    # binding self-test (independent of pycoin): canned answers against the exported expectation
    rec = {"acts": [["tin"], ["assign", 2], ["fee"]],
           "obs": [{"r": ["val", 8], "un": [[5, 1], [3, 1]], "outs": [[1, 2], [2, 1]]},
                   {"r": ["ok"], "un": [[7, 1], [3, 1]], "outs": [[1, 2], [2, 1]]},
                   {"r": ["val", 7], "un": [[7, 1], [3, 1]], "outs": [[1, 2], [2, 1]]}]}
    m = (1, 10 ** 8, 3 * 10 ** 14)[hashlib.blake2b(json.dumps(rec["acts"]).encode(), digest_size=2).digest()[0] % 3]
    good = [["val", 8 * m], ["ok"], ["val", 7 * m]]
    s0 = _session_chunk((world, [dict(rec, _got=good)]))[1]
    s1 = _session_chunk((world, [dict(rec, _got=[good[0], good[1], ["val", 5 * m]])]))[1]     # the stale answer
    s2 = _session_chunk((world, [dict(rec, _got=[good[0], ["raise", "X"], good[2]])]))[1]
    s3 = _session_chunk((world, [dict(rec, _got=[["val", 8 * m + 1], good[1], good[2]])]))[1]
    ctx.selftest("session_replay_rejects_stale_answer", not s0 and len(s1) == 1 and "|fee|" in s1[0][0]
                 and len(s2) == 1 and len(s3) == 1)
    # ... and where the standard admits two answers (a refusal, or the value of the entries paired with the
    # inputs) both are taken and a third one is not
    rec = {"acts": [["remove_in"], ["tin"]],
           "obs": [{"r": ["ok"], "also": [], "ins": [[1, 0]], "un": [[5, 1], [3, 1]], "outs": [[1, 2], [2, 1]]},
                   {"r": ["raise"], "also": [["val", 5]], "ins": [[1, 0]], "un": [[5, 1], [3, 1]], "outs": [[1, 2], [2, 1]]}]}
    m = (1, 10 ** 8, 3 * 10 ** 14)[hashlib.blake2b(json.dumps(rec["acts"]).encode(), digest_size=2).digest()[0] % 3]
    t0 = _session_chunk((world, [dict(rec, _got=[["ok"], ["raise", "ValueError"]])]))[1]
    t1 = _session_chunk((world, [dict(rec, _got=[["ok"], ["val", 5 * m]])]))[1]
    t2 = _session_chunk((world, [dict(rec, _got=[["ok"], ["val", 8 * m]])]))[1]
    ctx.selftest("session_replay_admits_exactly_the_admissible_answers", not t0 and not t1 and len(t2) == 1 and "|tin|" in t2[0][0])


# ------------------------------------------------------------------ Apalache (optional, not relied on)

def _apalache(ctx):
    """unbounded-integer cross-check of the closed form and of the scaling lemma (<= 4 split outputs).
    Absent tool or timeout: logged only.  A counterexample would mean the spec's own lemma is false."""
    import shutil
    import subprocess
    from ..tlc import SPEC_DIR
    exe = shutil.which("apalache-mc")
    res = {}
    for mod, length in (("TxBuildApa", 1), ("TxScaleApa", 0)):
        if not exe:
            res[mod] = "apalache-mc not installed"
            continue
        out = tempfile.mkdtemp(prefix="vf-c13-apa-")
        try:
            p = subprocess.run([exe, "check", "--inv=Inv", "--length=%d" % length, "--out-dir=" + out, mod + ".tla"],
                               cwd=SPEC_DIR, capture_output=True, text=True, timeout=240)
            txt = p.stdout + p.stderr
            if "The outcome is: NoError" in txt:
                res[mod] = "NoError"
            elif "The outcome is: Error" in txt:
                raise MachineryError("Apalache found a counterexample to %s!Inv (unbounded integers)" % mod)
            else:
                res[mod] = "inconclusive (exit %s)" % p.returncode
        except subprocess.TimeoutExpired:
            res[mod] = "timeout"
        finally:
            shutil.rmtree(out, ignore_errors=True)
        ctx.log("Apalache %s: %s" % (mod, res[mod]))
    ctx.extra["apalache_unbounded"] = res


# ------------------------------------------------------------------ create_signed_tx

def _signed_chunk(recs):
    from pycoin.symbols.btc import network
    drv = _drv()
    keys = {s: network.keys.private(1000 + s) for s in (1, 2)}
    wifs = [k.wif() for k in keys.values()]
    key_scr = {s: network.contract.for_address(k.address()) for s, k in keys.items()}
    scr_of = {v: k for k, v in key_scr.items()}
    fails = []
    for rec in recs:
        hashes = {}
        sps = []
        for src, idx, amt, scr in rec["sps"]:
            h = hashlib.sha256(b"c13 signed src %d" % src).digest()
            hashes[h] = src
            sps.append(drv.Spendable(amt, key_scr[scr], h, idx))
        try:
            tx = network.tx_utils.create_signed_tx(sps, drv.payables(rec["pays"], "bare"), wifs=wifs, fee=rec["fee"])
            got = {"ins": [[hashes.get(i.previous_hash, 0), i.previous_index] for i in tx.txs_in],
                   "unsp": [[u.coin_value, scr_of.get(u.script, 0), hashes.get(u.tx_hash, 0), u.tx_out_index] for u in tx.unspents],
                   "outs": [[drv.TO_OF_SCRIPT.get(o.script, 0), o.coin_value] for o in tx.txs_out],
                   "tin": tx.total_in(), "tout": tx.total_out(), "fee": tx.fee()}
            if tx.bad_solution_count() != 0:
                got = {"exc": "unsigned", "msg": "create_signed_tx returned a transaction that is not fully signed"}
        except Exception as e:
            got = {"exc": type(e).__name__, "msg": str(e)[:100]}
        v = _judge_build(_exp_small(rec), got)
        if v:
            fails.append(("C13|build-signed|%s|%s" % (_pool_class(rec).split(":")[0], v[0]),
                          "create_signed_tx(%s, %s, fee=%s): %s" % (rec["sps"], rec["pays"], rec["fee"], v[1]), {"rec": rec, "got": got}))
    return len(recs), fails


def _signed_subset(ctx):
    """create_signed_tx = create_tx + sign: the clauses must survive that entry point (real keys,
    real signatures).  Requests: MC_TxBuildReplay_signed.cfg."""
    st = Stream(_signed_chunk, chunk=25)
    ctx.tlc("MC_TxBuildReplay", "MC_TxBuildReplay_signed", workers=4, timeout=600, keep_records=False,
            on_record=lambda rec: st.feed(rec) if rec.get("k") == "build" else None)
    n = nf = 0
    for k, fails in st.finish():
        n += k
        nf += len(fails)
        _report(ctx, fails)
    if not n:
        raise MachineryError("no record for the signed subset")
    ctx.log("create_signed_tx: %d requests executed and compared: %d disagree" % (n, nf))
    ctx.replayed += n
    ctx.case(None, n)
    ctx.action("replay.MC_TxBuildReplay_signed", n)


def replay(ctx, obj):
    """./check C13 --replay replays/C13/<hash>.json : re-execute the recorded failing case"""
    key, d = obj["key"], obj.get("detail") or {}
    if key.startswith("C13|trace"):
        rej = validate_traces(ctx, [d])
        if rej:
            ctx.fail(key, obj["what"], d)
        return
    rec = d.get("rec")
    if rec is None:
        print(json.dumps(obj, indent=1))
        return
    if key.startswith("C13|build-signed"):
        fails = _signed_chunk([rec])[1]
    elif key.startswith("C13|build") or key.startswith("C13|validate|honest"):
        fails = _build_chunk(([rec], False))[1]
    elif key.startswith("C13|validate"):
        fails = _validate_chunk([rec])[1]
    elif key.startswith("C13|session"):
        # the session refers to the constant world of TxSession.tla by index: have TLC print it again
        r = ctx.tlc("MC_TxSessionReplay", "MC_TxSessionReplay_qb", workers=2, count=False)
        world = [x for x in r.records if isinstance(x, dict) and x.get("k") == "world"][0]
        fails = _session_chunk((world, [{k: v for k, v in rec.items() if k != "_got"}]))[1]
    else:
        fails = _conv_chunk(([rec], False))[1]
    for k, what, detail in fails:
        print("still failing: %s\n  %s" % (k, what))
    _report(ctx, fails)
