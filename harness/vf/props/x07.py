"""X07 - the small command-line front-ends (msg, keychain, coinc, block, b58) do what their arguments say and say the
truth about it.

Stages (./check X07 --only a,b,..):
  world     X06_MC_Keys: the BIP32 terms of every key of the keychain world, finished by the stdlib evaluator
  model     X07_MC_Cmds (one run per command): the lemmas on every enumerated session, every session printed with the
            outcome the rule books demand; three model mutations that must break a lemma
  replay    every printed session executed on the real commands (in-process, through main()), compared piece by piece
  traces    seeded random sessions beyond the grid, recorded and validated by TLC (X07_Trace_Cmds) + obligations
  truth     the repository's golden files (tests/cmds/test_cases/{msg,coinc}, tests/cmds/block_test.py) as canned
            observations through the same trace spec - a rejected one is a machinery failure
  selftest  binding self-tests (corrupted expected value / corrupted recorded field)
"""
from __future__ import annotations

import copy
import hashlib
import json
import os
import random
import re
import shlex
import shutil
import threading
import time

from ..ctx import MachineryError, ROOT, REPO
from .. import tlc as _tlc
from ..drv import nets
from ..drv import x06_keychain as kdrv
from ..drv import x07_cmds as D

PID = "X07"
WORKERS = int(os.environ.get("X07_WORKERS", "4"))
CMDS = ("b58", "coinc", "block", "msg", "keychain")
NAMED_NETS = ["BTC", "XTN", "LTC", "DOGE"]


class Findings(object):
    """ctx only reads the main findings files: keys listed as known in ext/X07_findings.json are reported as
    KNOWN-FINDING and do not fail the run"""

    def __init__(self, ctx):
        self.ctx = ctx
        self.known = {}
        path = os.path.join(ROOT, "ext", "X07_findings.json")
        if os.path.exists(path):
            for e in json.load(open(path))["findings"]:
                if e.get("property") == PID and e.get("status") == "known":
                    self.known[e["key"]] = e

    def fail(self, key, what, detail=None):
        if key in self.known:
            if key not in self.ctx.known_seen:
                self.ctx.known_seen[key] = what
                print("KNOWN-FINDING: property=%s %s [%s]" % (PID, self.known[key].get("what", what), key), flush=True)
            return False
        return self.ctx.fail(key, what, detail)


def want(ctx, stage):
    return ctx.only is None or stage in ctx.only


# ================================================================ environment

def make_env(ctx):
    table = nets.table()
    from pycoin.networks.registry import network_for_netcode
    names = [{"sym": s, "name": list(network_for_netcode(s).network_name.encode("utf8"))} for s in NAMED_NETS]
    env = {"NET_TABLE": nets.write_json(table, "vf-x07-nets-"), "X07_FACTS": nets.write_json({"names": names}, "vf-x07-facts-")}
    return env, table


def load_world(ctx, u):
    r = ctx.tlc("X06_MC_Keys", "X06_MC_Keys_" + u, workers=WORKERS, timeout=600)
    world = kdrv.World(r.records, ctx.seed)
    if len(world.key) != world.world["nkeys"]:
        raise MachineryError("X06_MC_Keys_%s printed %d keys of %d" % (u, len(world.key), world.world["nkeys"]))
    return world


# ================================================================ executing one session

class Bench(object):
    """everything a session needs: bindings, runners"""

    def __init__(self, ctx, table, world, tag, special=None):
        self.keys = D.Keys(ctx.seed, table, special)
        bind = self.keys.bind()
        bind["point"] = {k: self.keys.point(k) for k in (1, 2, 3)}
        self.ev = D.Ev(bind, world)
        self.world = world
        self.tag = tag
        self.msg = D.MsgRunner(self.keys, tag)
        self.kc = D.KcRunner(world, tag) if world is not None else None
        self.blk = D.BlockRunner(tag)
        self.j = 0

    def close(self):
        self.msg.close()
        self.blk.close()
        if self.kc:
            self.kc.close()


def _class(cmd, inv, res):
    if cmd == "msg":
        return (res["why"] + "|" if res["why"] else "") + D.msg_class(inv, res["st"] == "refuse")
    if cmd == "keychain":
        return D.kc_class(inv, res)
    if cmd == "coinc":
        return D.coinc_class(inv, res)
    if cmd == "block":
        return D.block_class(inv, res)
    return D.b58_class(inv, res)


def _coarse(cmd, inv, res):
    """class of an invocation for problems of the ENDING (an escaped exception, the exit status): what the
    invocation is about, not which boundary value it carries"""
    if res["st"] == "refuse" or res["open"]:
        return _class(cmd, inv, res)
    if cmd == "msg":
        if inv["sub"] == "verify":
            return "verify|sig=%s" % ("good" if inv["sig"]["cls"] == "ok" else "commits-to-no-key")
        return "sign"
    return "served"


def run_event(bench, cmd, inv, res, sid, scripts, view=None, first=False):
    """execute one invocation -> (obs, problems, extra)   problems: list of (key, what, detail)"""
    ev = bench.ev
    bench.j += 1
    stdin = None
    if cmd == "msg":
        inv = dict(inv)
        if "dig" in res["aux"]:
            inv["_dig"] = res["aux"]["dig"]
            inv["_sigdig"] = res["aux"]["sigdig"]
        r = bench.msg.argv(inv, ev)
        if r is None:
            return None, [], None
        argv, stdin = r
    elif cmd == "keychain":
        if first:
            bench.kc.fresh(sid)
        argv = bench.kc.argv(inv, sid)
    elif cmd == "coinc":
        argv = D.coinc_argv(inv, bench.j)
    elif cmd == "block":
        argv = bench.blk.argv(inv, ev)
    else:
        if not D.b58_sane(inv):
            return None, [], None
        argv = D.b58_argv(inv, ev)
    obs = D.invoke(cmd, argv, stdin)
    cls = _class(cmd, inv, res)
    problems = []
    bad = D.judge(cmd, inv, res, obs, ev, cls)
    if bad:
        kcls = _coarse(cmd, inv, res) if ("traceback:" in bad[0] or "exit-status" in bad[0]) else cls
        problems.append(("X07|%s|%s|%s" % (cmd, kcls, bad[0]), bad[1], {"argv": [a[:200] for a in argv], "obs": obs.asdict(), "detail": bad[2]}))
    extra = None
    if cmd == "msg" and inv["sub"] == "sign" and obs.end == "ok" and len(obs.lines()) == 1 and not bad:
        sig = res["out"][0][0]["sig"]
        ev.bind["sigtext"][D.sig_id(sig)] = obs.lines()[0]
    if cmd == "keychain":
        extra = kc_observe(bench, inv, res, obs, sid, scripts, view)
        if view is not None and not obs.end.startswith("traceback"):
            problems += kc_judge(cls, view, extra, argv, obs)
    return obs, problems, extra


def kc_observe(bench, inv, res, obs, sid, scripts, view):
    """what the file holds and answers after the invocation"""
    ev = bench.ev
    if view is not None:
        for x in view["interest"]:
            if x[0] == "s":
                t = {"op": "multisig", "m": x[1][1], "keys": x[1][2]}
                for order in ("sorted", "given"):
                    scripts[ev.multisig(t, order)] = tuple([x[1][0], x[1][1], tuple(x[1][2])])
    interest = bench.kc.interest(sid, scripts)
    answers = []
    if view is not None:
        by_secs = {}
        for pr in view["probes"]:
            by_secs.setdefault(tuple(sorted(map(tuple, pr["secs"]))), []).append(pr)
        for secs, prs in sorted(by_secs.items()):
            qs = [(_q(pr["q"])) for pr in prs]
            got = bench.kc.answers(sid, secs, qs, scripts)
            for pr, q in zip(prs, qs):
                answers.append({"q": pr["q"], "secs": [list(s) for s in secs], "got": got[D.qtext(q)], "allowed": sorted(D.atext(_a(a)) for a in pr["allowed"]),
                                "tags": pr["tags"]})
    return {"interest": interest, "answers": answers}


def _q(q):
    if q[0] == "k":
        return tuple(q)
    return (q[0], (q[1][0], q[1][1], tuple(q[1][2])))


def _a(a):
    if a[0] == "script":
        return ("script", (a[1][0], a[1][1], tuple(a[1][2])))
    return tuple(a)


def kc_judge(cls, view, extra, argv, obs):
    problems = []
    want = set()
    for x in view["interest"]:
        want.add(("k", x[1]) if x[0] == "k" else ("s", (x[1][0], x[1][1], tuple(x[1][2]))))
    got = extra["interest"]
    if got != want:
        miss, more = want - got, got - want
        tag = "file-lacks-registrations" if miss and not more else "file-holds-what-was-not-named" if more and not miss else "file-differs"
        problems.append(("X07|keychain|%s|%s" % (cls, tag), "keychain %s: the file's registrations differ from what the arguments denote" % cls,
                         {"argv": argv, "missing": sorted(map(str, miss))[:6], "unexpected": sorted(map(str, more))[:6], "obs": obs.asdict()}))
    for a in extra["answers"]:
        if a["got"] not in a["allowed"]:
            if a["tags"]:
                continue            # circumstances under which X06's known deviations of Keychain.get show: X06's subject
            kind = a["got"].split("|")[2] if a["got"].startswith("key|") and a["got"].count("|") >= 3 else a["got"].split("|")[0]
            wk = "/".join(sorted({x.split("|")[2] if x.startswith("key|") else x.split("|")[0] for x in a["allowed"]}))
            problems.append(("X07|keychain|%s|get|want=%s|got=%s" % (cls.split("|")[0], wk, kind),
                             "keychain %s: a fresh keychain on the file answers %s where %s is allowed" % (cls, a["got"], a["allowed"]),
                             {"argv": argv, "probe": a}))
            break
    return problems


def replay_sessions(ctx, fnd, bench, cmd, sessions):
    n_inv = 0
    t0 = time.time()
    # signing / verifying through the command costs ~0.8 s per invocation: the thorough tier's msg export
    # (3,000+ invocations) is replayed on a deterministic spread of its sessions, every class still present
    budget = 900
    total = sum(len(x["log"]) for x in sessions)
    if cmd == "msg" and total > budget:
        step = -(-total // budget)
        seen, kept = set(), []
        for j, x in enumerate(sessions):
            cls = tuple(_class(cmd, e["inv"], e["res"]) for e in x["log"])
            if j % step == 0 or cls not in seen:
                kept.append(x)
            seen.add(cls)
        ctx.log("msg: %d of %d exported sessions replayed (every %d-th and every new class sequence)" % (len(kept), len(sessions), step))
        sessions = kept
    for ses in sessions:
        scripts = {}
        sid = "%s-%s" % (cmd, ses["id"])
        for i, e in enumerate(ses["log"]):
            obs, problems, _extra = run_event(bench, cmd, e["inv"], e["res"], sid, scripts, e.get("view"), first=(i == 0))
            if obs is None:
                continue
            n_inv += 1
            ctx.case((cmd, _class(cmd, e["inv"], e["res"])))
            for key, what, detail in problems:
                fnd.fail(key, what, dict(detail, session=[x["inv"] for x in ses["log"]][:i + 1] if cmd in ("msg", "keychain") else None, inv=e["inv"]))
            if cmd == "keychain" and e.get("view"):
                ctx.case(None, len(e["view"]["probes"]))
        ctx.replayed += 1
        ctx.action("X07_Cmds.%s" % cmd, len(ses["log"]))
    ctx.log("%s: %d sessions, %d invocations replayed in %.1fs" % (cmd, len(sessions), n_inv, time.time() - t0))
    return n_inv


# ================================================================ model runs

def start_export(cmd, tier, env):
    job = {"cmd": cmd, "recs": [], "res": None, "err": None}

    def work():
        try:
            job["res"] = _tlc.run("X07_MC_Cmds", "X07_MC_Cmds_%s_%s" % (cmd, tier), workers=WORKERS, timeout=2400, env=env,
                                  keep_records=False, on_record=job["recs"].append)
        except Exception as e:                              # noqa
            job["err"] = e
    job["th"] = threading.Thread(target=work, daemon=True)
    job["th"].start()
    return job


def finish_export(ctx, job):
    job["th"].join()
    if job["err"] is not None:
        raise job["err"]
    r = job["res"]
    cfg = "X07_MC_Cmds_%s" % job["cmd"]
    ctx.states += r.distinct
    ctx.transitions += r.generated
    ctx.tlc_runs.append({"module": "X07_MC_Cmds", "cfg": cfg, "states": r.distinct, "transitions": r.generated, "depth": r.depth,
                         "wall_s": round(r.wall_s, 1), "ok": r.ok, "violated": r.violated})
    ctx.log("TLC X07_MC_Cmds/%s: %d distinct states, %d transitions, %.1fs%s" % (cfg, r.distinct, r.generated, r.wall_s, "" if r.ok else " VIOLATED " + str(r.violated)))
    if not r.ok:
        raise MachineryError("TLC run %s expected to pass but %s violated:\n%s" % (cfg, r.violated, r.error_text[:3000]))
    hdr = [x for x in job["recs"] if x.get("k") == "hdr"]
    ses = sorted((x for x in job["recs"] if x.get("k") == "ses"), key=lambda x: x["id"])
    if not hdr or hdr[0]["n"] != len(ses) or not ses:
        raise MachineryError("%s printed %d sessions of %s" % (cfg, len(ses), hdr and hdr[0]["n"]))
    return hdr[0], ses


MUTATIONS = [("msg", "MsgVerdict <- BadMsgVerdict", "Lemmas"), ("keychain", "KcFill <- BadKcFill", "Lemmas"),
             ("coinc", "ItemBytes <- BadItemBytes", "LemmasDone"), ("block", "BlockSize <- BadBlockSize", "LemmasDone")]


def model_mutations(ctx, env):
    """cfg substitutions that must break a lemma (quick: one of them, by seed; thorough: all)"""
    for cmd, subst, inv in (MUTATIONS if not ctx.quick else [MUTATIONS[ctx.seed % len(MUTATIONS)]]):
        name = "X07_MC_Cmds_bad_%s" % cmd
        path = os.path.join(_tlc.SPEC_DIR, name + ".cfg")
        text = 'CONSTANTS Cmd = "%s"  Tier = "q"  U = "q"\nCONSTANT %s\nSPECIFICATION Spec\nINVARIANTS Lemmas LemmasDone\nCHECK_DEADLOCK FALSE\n' % (cmd, subst)
        if not os.path.exists(path) or open(path).read() != text:
            with open(path, "w") as f:
                f.write(text)
        r = ctx.tlc("X07_MC_Cmds", name, workers=WORKERS, timeout=900, env=env, expect_ok=False, count=False, keep_records=False)
        if r.ok or r.violated != inv:
            raise MachineryError("%s should violate %s, TLC says %s\n%s" % (name, inv, r.violated, r.error_text[:1500]))
        ctx.selftest("model-bad_%s-violates-%s" % (cmd, inv), True)


# ================================================================ traces

def observe_struct(cmd, inv, obs, extra):
    """the structural reading of an observation (own decoders; nothing here knows an expected value)"""
    lines = obs.lines()
    o = {"end": "traceback" if obs.end.startswith("traceback") else obs.end, "nout": len(lines)}
    if cmd == "msg":
        o["first"] = "none" if not lines else "sigok" if lines[0] == "signature ok" else "bad" if lines[0].startswith("bad signature") else "other"
    elif cmd == "b58":
        o["lines"] = lines
    elif cmd == "coinc":
        o["scripts"], o["asms"] = [], []
        for g in range(0, len(lines) - 5, 6):
            l0 = lines[g]
            try:
                o["scripts"].append(D.rle_run(bytes.fromhex(l0[2:])) if l0.startswith("0x") else [{"n": 1, "b": 256}])
            except ValueError:
                o["scripts"].append([{"n": 1, "b": 256}])
            o["asms"].append([{"t": k if k != "junk" else "op", "d": D.rle_run(v) if k == "data" else [], "name": v if k != "data" else ""} for k, v in D.asm_tokens(lines[g + 5])])
    elif cmd == "block":
        o["heads"] = read_block_dumps(lines)
    elif cmd == "keychain":
        o["interest"] = sorted([[x[0], x[1]] if x[0] == "k" else ["s", [x[1][0], x[1][1], list(x[1][2])]] for x in extra["interest"] if x[0] in ("k", "s")], key=repr) \
            + [["?", x[1]] for x in extra["interest"] if x[0] == "?"]
        o["answers"] = [{"q": a["q"], "secs": a["secs"], "got": _answer_struct(a["got"])} for a in extra["answers"] if not a["tags"]]
    return o


def _answer_struct(text):
    if text == "miss":
        return ["miss"]
    p = text.split("|")
    if p[0] == "key" and len(p) == 4:
        return ["key", p[1], p[2], p[3]]
    if p[0] == "script" and p[1].startswith("ms:"):
        _ms, m, ks = p[1].split(":", 2)
        return ["script", ["ms", int(m), ks.split(",")]]
    return ["other", text]


def _limbs(n, k=2):
    return [(n >> (16 * i)) & 0xFFFF for i in range(k)]


_RE_HEAD = re.compile(r"^(\d+) bytes   block hash ([0-9a-f]{64})$")
_RE_TX = re.compile(r"^Version: +(\d+)  tx hash ([0-9a-f]{64})  (\d+) bytes$")
_RE_CNT = re.compile(r"^TxIn count: (\d+); TxOut count: (\d+)$")


def read_block_dumps(lines):
    heads = []
    i = 0
    try:
        while i < len(lines):
            m = _RE_HEAD.match(lines[i])
            if not m:
                break
            h = {"size": int(m.group(1)), "version": _limbs(int(lines[i + 1].split("version ")[1])), "iso": lines[i + 4].split("timestamp ")[1],
                 "bits": _limbs(int(lines[i + 5].split("difficulty ")[1])), "nonce": _limbs(int(lines[i + 6].split("nonce ")[1])),
                 "ntx": int(lines[i + 7].split(" ")[0]), "txs": []}
            i += 8
            while i < len(lines) and lines[i] != "":
                if lines[i].startswith("Tx #"):
                    m2 = _RE_TX.match(lines[i + 1])
                    wit = lines[i + 2].startswith("      segwit tx hash ")
                    m3 = _RE_CNT.match(lines[i + 2 + (1 if wit else 0)])
                    h["txs"].append({"version": _limbs(int(m2.group(1))), "size": int(m2.group(3)), "nin": int(m3.group(1)), "nout": int(m3.group(2)), "wit": wit})
                    i += 3
                else:
                    i += 1
            i += 1
            heads.append(h)
    except (IndexError, AttributeError, ValueError):
        heads.append({"size": -1, "version": [0, 0], "iso": "", "bits": [0, 0], "nonce": [0, 0], "ntx": -1, "txs": []})
    return heads


class Recorder(object):
    """seeded random sessions beyond the grid, in the token form of X07_Cmds"""

    def __init__(self, rng, world, names):
        self.rng = rng
        self.world = world
        self.names = sorted(n for n in names if n not in ("OP_PUSHDATA1", "OP_PUSHDATA2", "OP_PUSHDATA4"))

    # ---- msg
    def message(self):
        r = self.rng
        pool = [97, 98, 32, 10, 233, 8364, 128512, 8232, 133, 48, 45, 39, 34, 92, 36]
        n = r.choice([0, 1, 2, 5, 20, 60, 252, 253, 300])
        if r.random() < 0.3:
            return [[r.choice([97, 8364]), max(1, n)]]
        out = []
        for _ in range(min(n, 40)):
            c = r.choice(pool) if r.random() < 0.8 else r.randrange(33, 127)
            if out and out[-1][0] == c:
                out[-1][1] += 1
            else:
                out.append([c, 1])
        return out

    def msg_session(self):
        r = self.rng
        net = r.choice(["BTC", "BTC", "XTN", "LTC", "DOGE"])
        k, comp, m = r.choice([1, 2, 3]), r.random() < 0.6, self.message()
        src = r.choice(["m", "m", "i", "stdin"])
        if src == "m" and m and m[0][0] == 45:
            src = "i"                                   # a message that starts with '-' cannot follow -m on a command line
        sig = {"cls": "ok", "signer": k, "comp": comp, "net": net, "msg": m, "h": 0}
        ses = []
        if r.random() < 0.8:
            ses.append({"cmd": "msg", "net": net, "sub": "sign", "src": src, "msg": m, "mi": 0,
                        "wif": {"cls": r.choice(["wif"] * 8 + ["garbage", "address"]), "key": k, "comp": comp, "net": net if r.random() < 0.9 else r.choice(["BTC", "LTC", "XTN"])}})
            w = ses[0]["wif"]
            if w["cls"] != "wif":
                return ses
        for _ in range(r.randrange(1, 4)):
            vnet = net if r.random() < 0.8 else r.choice(["BTC", "XTN", "LTC", "DOGE"])
            vm = m if r.random() < 0.75 else self.message()
            vsrc = r.choice(["m", "i", "stdin"])
            if vsrc == "m" and vm and vm[0][0] == 45:
                vsrc = "stdin"
            a = r.random()
            if a < 0.3:
                addr = {"cls": "none", "key": 0, "comp": False, "net": ""}
            elif a < 0.9:
                addr = {"cls": "addr", "key": k if r.random() < 0.75 else r.choice([1, 2, 3]), "comp": comp if r.random() < 0.8 else not comp,
                        "net": vnet if r.random() < 0.85 else r.choice(["BTC", "LTC"])}
            else:
                addr = {"cls": "garbage", "key": 0, "comp": False, "net": ""}
            s = sig
            if r.random() < 0.15:
                cls = r.choice(["hdr_range", "r_zero", "r_ge_n", "s_zero", "s_ge_n", "no_point", "not_base64", "wrong_length"])
                s = {"cls": cls, "signer": 0, "comp": False, "net": "", "msg": [], "h": r.choice([26, 35]) if cls == "hdr_range" else r.choice([27, 28, 31, 32])}
            ses.append({"cmd": "msg", "net": vnet, "sub": "verify", "src": vsrc, "msg": vm, "mi": 0, "sig": s, "addr": addr})
        return ses

    # ---- coinc
    def item(self):
        r = self.rng
        x = r.random()
        if x < 0.45:
            return {"k": "op", "name": r.choice(self.names), "d": []}
        if x < 0.85:
            n = r.choice([0, 1, 1, 2, 3, 20, 32, 33, 65, 75, 76, 77, 255, 256, 300, 520, 1000])
            if n <= 40 and r.random() < 0.7:
                b = bytes(r.randrange(256) for _ in range(n))
            else:
                b = bytes([r.randrange(256)]) + bytes([r.randrange(256)]) * (n - 1) if n else b""
            return {"k": "data", "name": "", "d": D.rle_run(b)}
        if x < 0.95:
            b = bytes(r.choice([0x4c, 0x4d, 0x01, 0x02, 0x00, 0x51, 0xba, 0xff, 0x05, 0x76]) for _ in range(r.randrange(0, 4)))
            return {"k": "raw", "name": "", "d": D.rle_run(b)}
        return {"k": "bad", "name": r.choice(sorted(D.BAD_ITEM)), "d": []}

    def coinc_session(self):
        r = self.rng
        texts = [[self.item() for _ in range(r.randrange(0, 7))] for _ in range(r.choice([1, 1, 1, 2]))]
        return [{"cmd": "coinc", "net": r.choice(["BTC", "BTC", "XTN", "LTC"]), "texts": texts}]

    # ---- b58
    def b58_session(self):
        r = self.rng
        toks = []
        for _ in range(r.choice([1, 1, 2])):
            x = r.random()
            if x < 0.35:
                s = "".join(r.choice("0123456789abcdefABCDEF") for _ in range(2 * r.randrange(0, 30)))
                toks.append({"cls": "text", "t": [ord(c) for c in s], "p": []})
            elif x < 0.7:
                s = "".join(r.choice(nets.B58) for _ in range(r.randrange(1, 45)))
                if r.random() < 0.3:
                    s = "1" * r.randrange(1, 4) + s
                toks.append({"cls": "text", "t": [ord(c) for c in s], "p": []})
            elif x < 0.85:
                toks.append({"cls": "checked", "t": [], "p": [r.randrange(256) for _ in range(r.choice([0, 1, 4, 21, 33, 34, 50]))]})
            else:
                s = "".join(r.choice(nets.B58 + "0OIl_ ") for _ in range(r.randrange(1, 12)))
                toks.append({"cls": "text", "t": [ord(c) for c in s], "p": []})
        return [{"cmd": "b58", "toks": toks, "b": r.random() < 0.3}]

    # ---- block
    def tx(self, k):
        r = self.rng
        nin, nout = r.choice([1, 1, 2, 3]), r.choice([0, 1, 1, 2, 3])
        wit = r.random() < 0.4
        ins = []
        for j in range(nin):
            ins.append({"hash": [[r.randrange(256), 32]], "index": _limbs(r.choice([0, 1, 0xFFFFFFFF, r.randrange(1 << 32)])),
                        "script": [[r.randrange(256), r.choice([1, 2, 70, 107, 253])]] if r.random() < 0.7 else [],
                        "seq": _limbs(r.choice([0xFFFFFFFF, 0xFFFFFFFE, 0, r.randrange(1 << 32)])),
                        "wit": [[[r.randrange(256), r.choice([1, 33, 72])]] for _ in range(r.randrange(1, 3))] if wit and (j == 0 or r.random() < 0.5) else []})
        outs = [{"amount": _limbs(r.choice([0, 1, 5000000000, 21 * 10 ** 14, r.randrange(1 << 40)]), 4), "script": [[r.randrange(256), r.choice([1, 22, 25, 34])]]} for _ in range(nout)]
        return {"version": _limbs(r.choice([1, 2, 2, 0xFFFFFFFF, r.randrange(1 << 32)])), "ins": ins, "outs": outs, "lock": _limbs(r.choice([0, 499999999, 500000000, r.randrange(1 << 32)]))}

    def block_session(self):
        r = self.rng
        files = []
        for _ in range(r.choice([1, 1, 2])):
            h = {"version": _limbs(r.choice([1, 2, 0x20000000, 0x7FFFFFFF, 0x80000000, r.randrange(1 << 32)])),
                 "prev": {"op": "b", "v": [[r.randrange(256), 16], [r.randrange(256), 16]]}, "root": {"op": "b", "v": [[r.randrange(256), 31], [r.randrange(256), 1]]},
                 "time": _limbs(r.choice([0, 1231006505, 951782399, 951782400, 0x7FFFFFFF, 0x80000000, 0xFFFFFFFF, r.randrange(1 << 32)])),
                 "bits": _limbs(r.choice([0x1d00ffff, 0x207fffff, r.randrange(1 << 32)])), "nonce": _limbs(r.randrange(1 << 32))}
            for f in ("prev", "root"):
                v = h[f]["v"]
                if v[0][0] == v[1][0]:
                    h[f]["v"] = [[v[0][0], 32]]
            txs = [self.tx(k) for k in range(r.choice([0, 1, 1, 2, 3, 6]))]
            x = r.random()
            dmg, cut = "none", 0
            if x < 0.15:
                dmg, cut = "cut", r.choice([0, 3, 40, 79, 80])
            elif x < 0.22:
                dmg, cut = "trail", r.choice([1, 7, 300])
            elif x < 0.27:
                dmg, txs = "missing", []
            if not txs and dmg != "missing":
                txs = [self.tx(0)]
            files.append({"h": h, "txs": txs, "honest": dmg == "missing" or r.random() < 0.9, "dmg": dmg, "cut": cut})
        return [{"cmd": "block", "net": "BTC", "files": files}]

    # ---- keychain
    def kc_session(self):
        r = self.rng
        w = self.world
        roots = sorted(x for x, i in w.roots.items() if i["kind"] == "hd")
        ses = []
        for _ in range(r.randrange(1, 4)):
            x = r.random()
            rng_text = r.choice(w.ranges)["text"] if x < 0.85 else r.choice(["0-", "x", "1//2", "", "0,,1", "-1"])
            keys = []
            for _k in range(r.choice([1, 1, 2, 3])):
                y = r.random()
                if y < 0.9:
                    keys.append({"cls": "hd", "r": r.choice(roots), "form": r.choice(["pub", "pub", "prv"])})
                else:
                    keys.append({"cls": r.choice(["garbage", "wif", "othernet"]), "r": "P" if "P" in w.roots else roots[0], "form": "prv"})
                if keys[-1]["cls"] == "othernet":
                    keys[-1]["r"] = roots[0]
            m = r.choice([0, 0, 0, 1, 2, 4])
            ses.append({"cmd": "keychain", "net": "BTC", "range": list(rng_text), "keys": keys, "m": m})
        return ses


def traces_stage(ctx, fnd, env, table, world, names, u, ntr, truth=None, tag="tr"):
    """two TLC runs: (1) with blank observations: the outcomes demanded of the recorded invocations (needed to write
    signature texts of the token classes and to know what to ask the keychain file), (2) validation of what was observed"""
    rng = random.Random(ctx.seed * 7919 + 17)
    rec = Recorder(rng, world, names)
    gens = [rec.msg_session, rec.coinc_session, rec.b58_session, rec.block_session, rec.kc_session]
    sessions = [gens[i % len(gens)]() for i in range(ntr)] if ntr else []
    special = None
    if truth is not None:
        sessions, special = truth[0] + sessions, truth[1]

    def plain(inv):
        return {k: v for k, v in inv.items() if k != "canned"}
    blank = [[{"inv": plain(inv), "obs": {"end": "-", "nout": 0}} for inv in ses] for ses in sessions]
    p1 = nets.write_json(blank, "vf-x07-%s1-" % tag)
    r1 = ctx.tlc("X07_Trace_Cmds", "X07_Trace_Cmds_" + u, workers=WORKERS, timeout=1800, env=dict(env, TRACE_FILE=p1), count=False)
    os.remove(p1)
    exp = {(x["tid"], x["i"]): x["rec"] for x in r1.records if x.get("k") == "exp"}
    if len(exp) != sum(len(s) for s in sessions):
        raise MachineryError("X07_Trace_Cmds printed %d outcomes for %d recorded invocations" % (len(exp), sum(len(s) for s in sessions)))
    bench = Bench(ctx, table, world, "%s-%d" % (tag, os.getpid()), special)
    try:
        final, index = [], []
        for t, ses in enumerate(sessions, 1):
            scripts, evs = {}, []
            for i, inv in enumerate(ses):
                e = exp[(t, i + 1)]
                if "canned" in inv:
                    obs, problems, extra = inv["canned"], [], None
                    bad = D.judge(inv["cmd"], inv, e["res"], obs, bench.ev, _class(inv["cmd"], inv, e["res"]))
                    if bad:
                        problems.append(("X07|%s|canned|%s" % (inv["cmd"], bad[0]), bad[1], bad[2]))
                    elif inv["cmd"] == "msg" and inv["sub"] == "sign":
                        bench.ev.bind["sigtext"][D.sig_id(e["res"]["out"][0][0]["sig"])] = obs.lines()[0]
                else:
                    obs, problems, extra = run_event(bench, inv["cmd"], inv, e["res"], "%s-%d" % (tag, t), scripts, e.get("view"), first=(i == 0))
                if obs is None:
                    break                                  # a token class without a member: the session ends here
                evs.append({"inv": plain(inv), "obs": observe_struct(inv["cmd"], inv, obs, extra), "problems": problems, "raw": obs.asdict()})
            if evs:
                final.append([{"inv": x["inv"], "obs": x["obs"]} for x in evs])
                index.append((t, evs, len(evs) == len(ses)))
        p2 = nets.write_json(final, "vf-x07-%s2-" % tag)
        r2 = ctx.tlc("X07_Trace_Cmds", "X07_Trace_Cmds_" + u, workers=WORKERS, timeout=1800, env=dict(env, TRACE_FILE=p2), count=True)
        acc = {x["tid"] for x in r2.records if x.get("k") == "acc"}
        prog = {}
        for x in r2.records:
            if x.get("k") == "l":
                prog[x["tid"]] = max(prog.get(x["tid"], 0), x["i"])
        hdr = [x for x in r2.records if x.get("k") == "hdr"]
        if not hdr or hdr[0]["n"] != len(final):
            raise MachineryError("X07_Trace_Cmds loaded %s traces of %d" % (hdr and hdr[0]["n"], len(final)))
    finally:
        bench.close()
    return final, index, acc, prog, p2


def judge_traces(ctx, fnd, observed, truth=False):
    final, index, acc, prog, path = observed
    n_ok = 0
    for j, (t, evs, complete) in enumerate(index, 1):
        probs = [(i, p) for i, x in enumerate(evs) for p in x["problems"]]
        if j in acc and not probs:
            n_ok += 1
            ctx.traces += 1
            for x in evs:
                ctx.case(("trace", x["inv"]["cmd"], x["obs"]["end"]))
            continue
        if truth:
            raise MachineryError("ground truth: golden observation %d is not a run of the specification: accepted=%s, stopped after event %s, %s" % (
                t, j in acc, prog.get(j, 0), [p[1][0] for p in probs][:3]))
        if probs:
            for i, (key, what, detail) in probs:
                fnd.fail(key, what, dict(detail or {}, trace=[x["inv"] for x in evs][:i + 1]))
        else:
            i = prog.get(j, 0)
            x = evs[min(i, len(evs) - 1)]
            fnd.fail("X07|trace|%s|structure|end=%s" % (x["inv"]["cmd"], x["obs"]["end"]), "recorded %s invocation is not a run of X07_Cmds (event %d)" % (x["inv"]["cmd"], i + 1),
                     {"event": x, "trace": [y["inv"] for y in evs]})
    os.remove(path)
    return n_ok, len(index)


# ================================================================ ground truth: the repository's golden files

def golden_sessions(table):
    """command lines of the golden files read syntactically into tokens; the recorded stdout is the observation"""
    base = os.path.join(REPO, "tests", "cmds", "test_cases")
    sessions = []
    special = {}

    def canned(out):
        return D.Obs("ok", 0, out, "", None)

    def read(p):
        with open(p) as f:
            while True:
                cmd = f.readline()
                if cmd[0] != "#":
                    break
            return shlex.split(cmd), f.read()
    # msg: sign, then the two verify files speak about the signature the sign file shows
    msgs = []
    for fn in ("sign.txt", "simple_verify.txt", "verify_without_address.txt"):
        p = os.path.join(base, "msg", fn)
        if not os.path.exists(p):
            continue
        argv, out = read(p)
        a = argv[1:]
        message = a[a.index("-m") + 1]
        pos = [x for i, x in enumerate(a) if x != "-m" and (i == 0 or a[i - 1] != "-m")]
        m = D.rle_cps(message)
        if pos[0] == "sign":
            raw = nets.b58check_dec(pos[1])
            if raw is None or raw[0] != 0x80:
                continue
            special[1] = int.from_bytes(raw[1:33], "big")
            comp = len(raw) == 34
            msgs.append({"cmd": "msg", "net": "BTC", "sub": "sign", "src": "m", "msg": m, "mi": 0, "wif": {"cls": "wif", "key": 1, "comp": comp, "net": "BTC"},
                         "canned": canned(out), "_sigtext": out.strip()})
        else:
            msgs.append({"cmd": "msg", "net": "BTC", "sub": "verify", "src": "m", "msg": m, "mi": 0, "_sigtext": pos[1],
                         "addr": {"cls": "addr", "key": 1, "comp": True, "net": "BTC", "_text": pos[2]} if len(pos) > 2 else {"cls": "none", "key": 0, "comp": False, "net": ""},
                         "canned": canned(out)})
    if msgs and msgs[0]["sub"] == "sign":
        sg = msgs[0]
        ses = []
        for e in msgs:
            if e["sub"] == "verify":
                if e["_sigtext"] != sg["_sigtext"] or e["msg"] != sg["msg"]:
                    continue
                e["sig"] = {"cls": "ok", "signer": 1, "comp": sg["wif"]["comp"], "net": "BTC", "msg": sg["msg"], "h": 0}
                if e["addr"]["cls"] == "addr":
                    e["addr"]["comp"] = sg["wif"]["comp"]
            ses.append({k: v for k, v in e.items() if not k.startswith("_")})
            for k in list(ses[-1].get("addr", {})):
                if k.startswith("_"):
                    del ses[-1]["addr"][k]
        sessions.append(ses)
    for fn in ("coinc_compile.txt", "coinc_hex.txt"):
        p = os.path.join(base, "coinc", fn)
        if not os.path.exists(p):
            continue
        argv, out = read(p)
        texts = []
        for text in argv[1:]:
            items = []
            for w in text.split():
                if w.startswith("[") and w.endswith("]"):
                    items.append({"k": "data", "name": "", "d": D.rle_run(bytes.fromhex(w[1:-1]))})
                elif w.lower().startswith("0x"):
                    items.append({"k": "raw", "name": "", "d": D.rle_run(bytes.fromhex(w[2:]))})
                else:
                    items.append({"k": "op", "name": w, "d": []})
            texts.append(items)
        sessions.append([{"cmd": "coinc", "net": "BTC", "texts": texts, "canned": canned(out)}])
    # the block test keeps its vector in the test source
    p = os.path.join(REPO, "tests", "cmds", "block_test.py")
    if os.path.exists(p):
        src = open(p).read()
        hexes = "".join(re.findall(r'"([0-9a-f]+)"', src.split("block_hex = (")[1].split(")")[0])) if "block_hex = (" in src else ""
        m = re.search(r'"""(\d+ bytes   block hash.*?)""",', src, re.S)
        if hexes and m:
            f = read_block(bytes.fromhex(hexes))
            if f is not None:
                sessions.append([{"cmd": "block", "net": "BTC", "files": [f], "canned": canned(m.group(1))}])
    return sessions, special


def read_block(b):
    """bytes -> the file token of X07_Cmds (own reader; None when the bytes are no complete block)"""
    try:
        h = {"version": _limbs(int.from_bytes(b[0:4], "little")), "prev": {"op": "b", "v": _rb(b[4:36])}, "root": {"op": "b", "v": _rb(b[36:68])},
             "time": _limbs(int.from_bytes(b[68:72], "little")), "bits": _limbs(int.from_bytes(b[72:76], "little")), "nonce": _limbs(int.from_bytes(b[76:80], "little"))}
        pos = [80]

        def take(n):
            x = b[pos[0]:pos[0] + n]
            if len(x) != n:
                raise IndexError
            pos[0] += n
            return x

        def cs():
            t = take(1)[0]
            return t if t < 253 else int.from_bytes(take({253: 2, 254: 4, 255: 8}[t]), "little")
        txs = []
        for _ in range(cs()):
            ver = take(4)
            wit = False
            n = cs()
            if n == 0:
                take(1)
                wit = True
                n = cs()
            ins = []
            for _i in range(n):
                ins.append({"hash": _rb(take(32)), "index": _limbs(int.from_bytes(take(4), "little")), "script": _rb(take(cs())),
                            "seq": _limbs(int.from_bytes(take(4), "little")), "wit": []})
            outs = []
            for _o in range(cs()):
                outs.append({"amount": _limbs(int.from_bytes(take(8), "little"), 4), "script": _rb(take(cs()))})
            if wit:
                for i in ins:
                    i["wit"] = [_rb(take(cs())) for _w in range(cs())]
            txs.append({"version": _limbs(int.from_bytes(ver, "little")), "ins": ins, "outs": outs, "lock": _limbs(int.from_bytes(take(4), "little"))})
        if pos[0] != len(b):
            return None
        honest = D.merkle_root([nets.sha256d(D.tx_bytes(t, strip=True)) for t in txs]) == b[36:68] if txs else False
        return {"h": h, "txs": txs, "honest": honest, "dmg": "none", "cut": 0}
    except (IndexError, KeyError):
        return None


def _rb(b):
    out = []
    for x in b:
        if out and out[-1][0] == x:
            out[-1][1] += 1
        else:
            out.append([x, 1])
    return out


# ================================================================ binding self-tests

def selftests(ctx, env, table, world, exports):
    """corrupt one expected value of one replay case per command and one field of one recorded trace: all rejected.
    Canned observations (the golden files; observations synthesized from the expected pieces), not live pycoin."""
    bench = Bench(ctx, table, world, "self-%d" % os.getpid(), {1: 1})
    try:
        ev = bench.ev
        # (1) replay comparison: an observation synthesized from the expected pieces is accepted; a corrupted expectation is not
        for cmd in ("b58", "coinc", "block"):
            done = False
            for ses in exports.get(cmd, []):
                e = ses["log"][0]
                if e["res"]["st"] != "ok" or e["res"]["open"]:
                    continue
                try:
                    lines = synth_lines(e["res"]["out"], ev)
                except Exception:                         # noqa
                    continue
                obs = D.Obs("ok", 0, "\n".join(lines) + "\n", "", None)
                if D.judge(cmd, e["inv"], e["res"], obs, ev, "self") is not None:
                    raise MachineryError("self-test: the synthesized observation of a %s case is not accepted" % cmd)
                bad = copy.deepcopy(e["res"])
                if not corrupt_pieces(bad["out"]):
                    continue
                ctx.selftest("replay-%s-corrupted-expected-value" % cmd, D.judge(cmd, e["inv"], bad, obs, ev, "self") is not None)
                ctx.selftest("replay-%s-exit-status" % cmd, D.judge(cmd, e["inv"], e["res"], D.Obs("nonzero", 1, obs.out, "x", None), ev, "self") is not None)
                done = True
                break
            if not done and exports.get(cmd):
                raise MachineryError("self-test: no %s case to corrupt" % cmd)
    finally:
        bench.close()


def synth_lines(out, ev):
    lines = []
    for line in out:
        kinds = [p["t"] for p in line]
        if kinds == ["blockdump"]:
            d = line[0]["d"]
            for l in d["head"]:
                lines.append("".join(D.piece_text(p, ev) for p in l))
            for heads in d["txs"]:
                for l in heads:
                    lines.append("".join(D.piece_text(p, ev) for p in l))
                lines.append("Input:")
            lines.append("")
        elif kinds == ["asm"]:
            alt = sorted(line[0]["alts"], key=repr)[0] if line[0]["alts"] else []
            lines.append(" ".join("[%s]" % D.expand_run(t["d"]).hex() if t["t"] == "data" else t["name"] for t in alt))
        else:
            lines.append(D.line_alternatives(line, ev)[0])
    return lines


def corrupt_pieces(out):
    for line in out:
        for p in line:
            if p["t"] == "blockdump":
                p["d"]["head"][6] = [{"t": "lit", "s": "nonce 1"}]
                return True
            if p["t"] == "lit" and p["s"] and p["s"] not in ("0x",):
                p["s"] = p["s"][:-1] + ("0" if p["s"][-1] != "0" else "1")
                return True
            if p["t"] == "hex":
                p["a"] = {"op": "cat", "a": [p["a"], {"op": "bytes", "a": [0]}]}
                return True
    return False


def judge_part(ctx, fnd, observed, lo, hi, mode, names=None):
    """sessions lo..hi-1 (1-based tids) of a combined run: mode "truth" (all must be runs), "selftest" (none may be),
    "traces" (findings)"""
    final, index, acc, prog, path = observed
    n_ok = n = 0
    for j, (t, evs, complete) in enumerate(index, 1):
        if not lo <= t < hi:
            continue
        n += 1
        probs = [(i, p) for i, x in enumerate(evs) for p in x["problems"]]
        ok = j in acc and not probs
        if mode == "selftest":
            ctx.selftest("trace-corrupted-" + names[t - lo], not ok)
            continue
        if ok:
            n_ok += 1
            ctx.traces += 1
            for x in evs:
                ctx.case(("trace", x["inv"]["cmd"], x["obs"]["end"]))
            continue
        if mode == "truth":
            raise MachineryError("ground truth: golden observation %d is not a run of the specification: accepted=%s, stopped after event %s, %s" % (
                t, j in acc, prog.get(j, 0), [p[1][0] for p in probs][:3]))
        if probs:
            for i, (key, what, detail) in probs:
                fnd.fail(key, what, dict(detail or {}, trace=[x["inv"] for x in evs][:i + 1]))
        else:
            i = prog.get(j, 0)
            x = evs[min(i, len(evs) - 1)]
            fnd.fail("X07|trace|%s|structure|end=%s" % (x["inv"]["cmd"], x["obs"]["end"]), "recorded %s invocation is not a run of X07_Cmds (event %d)" % (x["inv"]["cmd"], i + 1),
                     {"event": x, "trace": [y["inv"] for y in evs]})
    return n_ok, n


def trace_selftests(ctx, env, table, world, u):
    """golden observations with one field changed must be rejected by the trace spec / the obligations"""
    sessions, special = golden_sessions(table)
    cases = []
    for ses in sessions:
        e = ses[0]
        if e["cmd"] == "coinc" and not any(c[0] == "coinc-script-byte" for c in cases):
            bad = copy.deepcopy(ses)
            o = bad[0]["canned"]
            o.out = o.out.replace("0x76a9", "0x76a8", 1) if "0x76a9" in o.out else o.out.replace("0xaa", "0xab", 1)
            cases.append(("coinc-script-byte", bad))
            bad = copy.deepcopy(ses)
            o = bad[0]["canned"]
            ls = o.out.split("\n")
            ls[1] = ls[1][:-1] + ("1" if ls[1][-1] != "1" else "2")
            o.out = "\n".join(ls)
            cases.append(("coinc-address-character", bad))
        if e["cmd"] == "block":
            bad = copy.deepcopy(ses)
            bad[0]["canned"].out = bad[0]["canned"].out.replace("timestamp 2009-01-09T03:02:53", "timestamp 2009-01-09T03:02:54")
            cases.append(("block-timestamp-second", bad))
            bad = copy.deepcopy(ses)
            bad[0]["canned"].out = bad[0]["canned"].out.replace("215 bytes", "216 bytes")
            cases.append(("block-size", bad))
            bad = copy.deepcopy(ses)
            bad[0]["canned"].out = bad[0]["canned"].out.replace("block hash 0000000082b5", "block hash 0000000082b4")
            cases.append(("block-id-digit", bad))
        if e["cmd"] == "msg" and len(ses) >= 2:
            bad = copy.deepcopy(ses)
            bad[1]["canned"].out = "bad signature, matches x\n"
            cases.append(("msg-verdict", bad))
            bad = copy.deepcopy(ses)
            s = bad[0]["canned"].out
            bad[0]["canned"].out = s[:10] + ("A" if s[10] != "A" else "B") + s[11:]
            cases.append(("msg-signature-character", bad[:1]))
    if len(cases) < 5:
        raise MachineryError("trace self-test: only %d corrupted golden observations could be built" % len(cases))
    return cases, special


# ================================================================ run

def run(ctx):
    os.makedirs(D.BASE, exist_ok=True)
    try:
        _run(ctx)
    finally:
        for p in os.listdir(D.BASE):
            if p.endswith("-%d" % os.getpid()):
                shutil.rmtree(os.path.join(D.BASE, p), ignore_errors=True)


def _run(ctx):
    fnd = Findings(ctx)
    tier = "q" if ctx.quick else "t"
    ctx.rule = ("distinct_nontrivial = distinct (command, ending class demanded, token classes of the invocation) of replayed "
                "invocations + distinct (command, observed ending) of accepted recorded sessions")
    ctx.assumptions += ["hashes, Base58Check, Bech32, secp256k1 points and BIP32 derivations are evaluated outside TLC by stdlib evaluators (hashlib, hmac, reference curve)",
                        "ideal signatures: a good signature recovers a key nobody holds under any other digest (MC_MsgSign proves it on toy curves)",
                        "network prefixes and display names are configuration read from pycoin (NET_TABLE, X07_FACTS)",
                        "the commands run in-process through main() with argv / stdin / stdout / stderr patched; the exit status is what sys.exit(main()) gives"]
    env, table = make_env(ctx)
    try:
        world = load_world(ctx, tier) if (want(ctx, "world") or want(ctx, "replay") or want(ctx, "traces") or want(ctx, "selftest")) else None
        if world is not None:
            bad = world.check_roots()
            if bad:
                fnd.fail("X07|world|extended-key-differs-from-BIP32-terms", "the roots pycoin builds differ from the evaluated BIP32 terms: %s" % bad[:3], {"bad": bad})
        exports, names = {}, set()
        if want(ctx, "model") or want(ctx, "replay") or want(ctx, "selftest") or want(ctx, "traces"):
            jobs = {}
            sem_cmds = [c for c in CMDS if ctx.only is None or not ({"b58", "coinc", "block", "msg", "keychain"} & ctx.only) or c in ctx.only]
            # two exports at a time
            order = list(sem_cmds)
            running = []
            results = {}
            while order or running:
                while order and len(running) < 3:
                    c = order.pop(0)
                    running.append((c, start_export(c, tier, env)))
                c, job = running.pop(0)
                hdr, ses = finish_export(ctx, job)
                results[c] = (hdr, ses)
                if c == "coinc":
                    names = set(hdr["names"])
                exports[c] = ses
                if want(ctx, "replay"):
                    bench = Bench(ctx, table, world, "rp-%s-%d" % (c, os.getpid()))
                    try:
                        replay_sessions(ctx, fnd, bench, c, ses)
                    finally:
                        bench.close()
            ctx.exhaustive = True
        if want(ctx, "model"):
            model_mutations(ctx, env)
        if want(ctx, "selftest"):
            selftests(ctx, env, table, world, exports)
        if want(ctx, "truth") or want(ctx, "traces") or want(ctx, "selftest"):
            # one recorded batch: the golden observations, the corrupted golden observations, the seeded sessions
            gold, special = golden_sessions(table)
            if len(gold) < 3:
                raise MachineryError("only %d golden observations found under %s/tests/cmds" % (len(gold), REPO))
            cases, _sp = trace_selftests(ctx, env, table, world, tier)
            ntr = (150 if ctx.quick else 400) if want(ctx, "traces") else 0
            if ntr and not names:
                raise MachineryError("the coinc export (opcode names) is needed by the recorder")
            obs = traces_stage(ctx, fnd, env, table, world, names, tier, ntr, truth=(gold + [c[1] for c in cases], special))
            a, b = 1 + len(gold), 1 + len(gold) + len(cases)
            n_ok, n = judge_part(ctx, fnd, obs, 1, a, "truth")
            ctx.extra["golden_observations_accepted"] = n_ok
            ctx.log("ground truth: %d golden observations are runs of the specification" % n_ok)
            judge_part(ctx, fnd, obs, a, b, "selftest", [c[0] for c in cases])
            if ntr:
                n_ok, n = judge_part(ctx, fnd, obs, b, 10 ** 9, "traces")
                ctx.extra["recorded_sessions"] = n
                ctx.log("traces: %d of %d recorded sessions accepted" % (n_ok, n))
            os.remove(obs[4])
    finally:
        for p in env.values():
            try:
                os.remove(p)
            except OSError:
                pass
