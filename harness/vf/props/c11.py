"""C11 - Base58, Base58Check and Bech32/Bech32m codecs are exact inverses and detect corruption.

1. Model: spec/Base58.tla (schoolbook radix conversion on digit sequences, leading-zero
   bookkeeping, Base58Check with the hash as an uninterpreted term) and spec/Bech32.tla
   (BIP173/BIP350 rule book).  TLC checks their lemmas (MC_Base58, MC_Bech32) and decides the
   <=4-error detection guarantee of the BCH code through the affine lemma plus pairwise
   distinct syndromes (MC_Bech32Syn, window 89; window 90 must fail).
2. Ground truth: the published vectors in REPO/tests (bech32_test.py, encoding_test.py) and
   the BIP173 lists go through the spec operators first (mode "vec"); a disagreement is a
   machinery failure.
3. spec -> code: MC_C11Replay prints every case with the demanded outcome; each is executed
   on pycoin (b58, bech32m, parseable_str, the network parse/address API).
4. code -> spec: seeded random sessions on pycoin are logged and validated by TLC
   (Trace_C11), hashes supplied by the stdlib evaluator for the terms TLC names.
"""
from __future__ import annotations

import ast
import copy
import hashlib
import json
import os
import random
import re
import tempfile

from ..ctx import REPO, MachineryError
from ..drv import codec as drv
from ..par import NPROC, split

# ---------------------------------------------------------------- stdlib evaluator of uninterpreted terms


def eval_term(t):
    """value (bytes) of a term emitted by the specs: byte lists, sha256d, first4"""
    if isinstance(t, list):
        return bytes(t)
    if isinstance(t, dict) and not t:
        return b""
    a = eval_term(t["arg"])
    if t["op"] == "sha256d":
        return hashlib.sha256(hashlib.sha256(a).digest()).digest()
    if t["op"] == "first4":
        return a[:4]
    raise MachineryError("unknown term %r" % (t,))


def _h4(b):
    return list(hashlib.sha256(hashlib.sha256(bytes(b)).digest()).digest()[:4])


# ---------------------------------------------------------------- classes (for keys / coverage)

def _zeros_cls(b):
    z = 0
    for x in b:
        if x:
            break
        z += 1
    if not b:
        return "empty"
    if z == len(b):
        return "allzero"
    return "lead0" if z == 0 else "lead%s" % ("1" if z == 1 else "N")


def _len_cls(n):
    for lim in (0, 1, 4, 20, 21, 32, 33, 40, 90, 256, 512, 1024):
        if n <= lim:
            return "<=%d" % lim
    return ">1024"


def _char_cls(s):
    """worst character class of a string w.r.t. Python str handling"""
    m = max(s) if s else 0
    if any(0xD800 <= c <= 0xDFFF for c in s):
        return "surrogate"
    if m > 127:
        return "non-ascii"
    return "ascii"


def _got_tag(o):
    return o["tag"] if o["tag"] != "ok" else "value"


def _text(cs):
    return "".join(chr(c) if 32 < c < 127 else "\\u%04x" % c for c in cs)


# ---------------------------------------------------------------- comparison of one TLC record with pycoin

def check_record(rec):
    """returns (class_key, [failures]) ; failure = (key, what, detail)"""
    k = rec["k"]
    fails = []

    def F(key, what, **detail):
        fails.append((key, what, dict(detail, record=rec)))

    if k == "b58enc":
        b, s = rec["b"], rec["s"]
        cls = "%s" % _zeros_cls(b)
        e = drv.b58_encode(b)
        if e["tag"] != "ok" or e["s"] != s:
            F("C11|b2a_base58|%s|expected=string|got=%s" % (cls, "other-string" if e["tag"] == "ok" else e["tag"]),
              "b2a_base58(%s) = %r, the Base58 rules give %r" % (bytes(b).hex(), e["s"] and _text(e["s"]), _text(s)), got=e)
        d = drv.b58_decode(s)
        if d["tag"] != "ok" or d["b"] != b:
            F("C11|a2b_base58|%s|expected=bytes|got=%s" % (cls, "other-bytes" if d["tag"] == "ok" else d["tag"]),
              "a2b_base58(%r) = %r, expected %s" % (_text(s), d["b"] and bytes(d["b"]).hex(), bytes(b).hex()), got=d)
        c = drv.b58_parse_cached(s)
        if c["tag"] != "ok" or c["b"] != b:
            F("C11|parse_b58|%s|expected=bytes|got=%s" % (cls, _got_tag(c)), "parse_b58(%r) != %s" % (_text(s), bytes(b).hex()), got=c)
        return ("b58enc", cls, _len_cls(len(b))), fails

    if k == "b58dec":
        s, ok, b = rec["s"], rec["ok"], rec["b"]
        ccls = _char_cls(s)
        d = drv.b58_decode(s)
        if ok:
            cls = _zeros_cls(b)
            if d["tag"] != "ok" or d["b"] != b:
                F("C11|a2b_base58|%s|expected=bytes|got=%s" % (cls, "other-bytes" if d["tag"] == "ok" else d["tag"]),
                  "a2b_base58(%r) = %r, expected %s" % (_text(s), d["b"] and bytes(d["b"]).hex(), bytes(b).hex()), got=d)
            e = drv.b58_encode(b)
            if e["tag"] != "ok" or e["s"] != s:
                F("C11|b2a_base58|%s|expected=string|got=%s" % (cls, "other-string" if e["tag"] == "ok" else e["tag"]),
                  "b2a_base58(%s) = %r, expected %r" % (bytes(b).hex(), e["s"] and _text(e["s"]), _text(s)), got=e)
            return ("b58dec", "ok", cls, _len_cls(len(s))), fails
        if d["tag"] != "EncodingError":
            F("C11|a2b_base58|chars=%s|expected=EncodingError|got=%s" % (ccls, _got_tag(d)),
              "a2b_base58(%r) must raise EncodingError (character outside the alphabet), got %s" % (_text(s), d), got=d)
        c = drv.b58_parse_cached(s)
        if c["tag"] != "ok" or c["b"] is not None:
            F("C11|parse_b58|chars=%s|expected=None|got=%s" % (ccls, _got_tag(c)), "parse_b58(%r) must be None" % _text(s), got=c)
        return ("b58dec", "reject", ccls, _len_cls(len(s))), fails

    if k == "b58c":
        s, cls = rec["s"], rec["cls"]
        hv = list(eval_term(rec["term"]))
        if rec["exp"] == "accept":
            if hv != rec["cks"]:
                raise MachineryError("evaluator disagrees with the hash table for %r" % (rec,))
            accept = True
        elif rec["exp"] == "reject":
            if rec["why"] == "checksum" and hv == rec["cks"]:
                raise MachineryError("spec claims a definite checksum mismatch but the evaluator finds equality: %r" % (rec,))
            accept = False
        else:
            accept = hv == rec["cks"]
        why = rec["why"] or ("checksum" if not accept else "")
        ccls = _char_cls(s)
        o = drv.b58check_decode(s)
        tagk = "cls=%s|why=%s|chars=%s" % (cls, why, ccls)
        if accept:
            p = rec["payload"]
            if o["a2b"]["tag"] != "ok" or o["a2b"]["p"] != p:
                F("C11|a2b_hashed_base58|%s|expected=payload|got=%s" % (tagk, _got_tag(o["a2b"])),
                  "a2b_hashed_base58(%r) must return %s" % (_text(s), bytes(p).hex()), got=o)
            if o["is_valid"] != {"tag": "ok", "v": True}:
                F("C11|is_hashed_base58_valid|%s|expected=True|got=%s" % (tagk, o["is_valid"]), "is_hashed_base58_valid(%r) must be True" % _text(s), got=o)
            for name in ("parse", "parse_cached"):
                if o[name]["tag"] != "ok" or o[name]["p"] != p or not o[name].get("stable", True):
                    F("C11|parse_b58_double_sha256|%s|expected=payload|got=%s" % (tagk, _got_tag(o[name])),
                      "parse_b58_double_sha256(%r) must return %s" % (_text(s), bytes(p).hex()), got=o)
            if cls == "valid":
                e = drv.b58check_encode(p)
                if e["tag"] != "ok" or e["s"] != s:
                    F("C11|b2a_hashed_base58|%s|expected=string|got=%s" % (_zeros_cls(p), _got_tag(e)),
                      "b2a_hashed_base58(%s) = %r, expected %r" % (bytes(p).hex(), e["s"] and _text(e["s"]), _text(s)), got=e)
        else:
            if o["a2b"]["tag"] != "EncodingError":
                F("C11|a2b_hashed_base58|%s|expected=EncodingError|got=%s" % (tagk, _got_tag(o["a2b"])),
                  "a2b_hashed_base58(%r) must raise EncodingError (%s)" % (_text(s), why), got=o)
            if o["is_valid"] != {"tag": "ok", "v": False}:
                F("C11|is_hashed_base58_valid|%s|expected=False|got=%s" % (tagk, o["is_valid"]["v"] if o["is_valid"]["tag"] == "ok" else o["is_valid"]["tag"]),
                  "is_hashed_base58_valid(%r) must be False (%s)" % (_text(s), why), got=o)
            for name in ("parse", "parse_cached"):
                if o[name]["tag"] != "ok" or o[name]["p"] is not None or not o[name].get("stable", True):
                    F("C11|parse_b58_double_sha256|%s|expected=None|got=%s" % (tagk, _got_tag(o[name])),
                      "parse_b58_double_sha256(%r) must be None (%s)" % (_text(s), why), got=o)
        return ("b58c", cls, why, _len_cls(len(s))), fails

    if k in ("seg", "corr"):
        hrp = rec["hrp"]
        s = rec["raw"] if k == "seg" else rec["s"]
        dec, b32 = rec["dec"], rec["b32"]
        if k == "seg":
            ver, prog = rec["ver"], rec["prog"]
            vcls = "v0" if ver == 0 else ("v1-16" if ver <= 16 else "v>16")
            cls = "seg|%s|len=%s" % (vcls, len(prog) if len(prog) in (0, 1, 2, 20, 32, 40, 41) else _len_cls(len(prog)))
            for as_bytes in (True, False):
                e = drv.seg_encode(hrp, ver, prog, as_bytes)
                want = s if rec["enc"] else None
                if e["tag"] != "ok" or e["s"] != want:
                    F("C11|bech32m.encode|%s|expected=%s|got=%s" % (cls, "string" if rec["enc"] else "None",
                                                                     e["tag"] if e["tag"] != "ok" else ("None" if e["s"] is None else "string")),
                      "encode(%r, %d, %s) = %r, the rules give %r" % (_text(hrp), ver, bytes(prog).hex(), e["s"] and _text(e["s"]), want and _text(want)), got=e)
            if rec["enc"]:
                n = drv.net_for_program(hrp, ver, prog)
                if n["tag"] != "n/a" and (n["tag"] != "ok" or n["s"] != s):
                    F("C11|network.address|%s|expected=string|got=%s" % (cls, _got_tag(n)),
                      "network address for v%d program %s = %r, expected %r" % (ver, bytes(prog).hex(), n["s"] and _text(n["s"]), _text(s)), got=n)
        else:
            cls = rec["cls"]
        tagk = "cls=%s|why=%s" % (cls, dec["why"])
        # decode with the expected hrp
        d = drv.seg_decode(hrp, s)
        if dec["ok"]:
            if d != {"tag": "ok", "ok": True, "ver": dec["ver"], "prog": dec["prog"]}:
                F("C11|bech32m.decode|%s|expected=accept|got=%s" % (tagk, "reject" if d.get("ok") is False else ("other-value" if d["tag"] == "ok" else d["tag"])),
                  "decode(%r, %r) must give (%d, %s), got %s" % (_text(hrp), _text(s), dec["ver"], bytes(dec["prog"]).hex(), d), got=d)
        else:
            if d != {"tag": "ok", "ok": False}:
                F("C11|bech32m.decode|%s|expected=reject|got=%s" % (tagk, "accept" if d.get("ok") else d["tag"]),
                  "decode(%r, %r) must give (None, None) [%s], got %s" % (_text(hrp), _text(s), dec["why"], d), got=d)
        # bech32 level
        bd = drv.b32_decode(s)
        btag = "cls=%s|why=%s" % (cls, b32["why"])
        if b32["ok"]:
            if bd != {"tag": "ok", "ok": True, "hrp": b32["hrp"], "data": b32["data"], "spec": b32["spec"]}:
                F("C11|bech32_decode|%s|expected=accept|got=%s" % (btag, "reject" if bd.get("ok") is False else ("other-value" if bd["tag"] == "ok" else bd["tag"])),
                  "bech32_decode(%r) must give hrp/data/spec %s" % (_text(s), b32), got=bd)
            e = drv.b32_encode(b32["hrp"], b32["data"], b32["spec"])
            low = [c + 32 if 65 <= c <= 90 else c for c in s]
            if e["tag"] != "ok" or e["s"] != low:
                F("C11|bech32_encode|%s|expected=string|got=%s" % (btag, _got_tag(e)), "bech32_encode does not give back %r" % _text(low), got=e)
        else:
            if bd != {"tag": "ok", "ok": False}:
                F("C11|bech32_decode|%s|expected=reject|got=%s" % (btag, "accept" if bd.get("ok") else bd["tag"]),
                  "bech32_decode(%r) must give (None, None, None) [%s], got %s" % (_text(s), b32["why"], bd), got=bd)
        # cached helper used by address parsing
        pc = drv.parse_bech32_cached(s)
        if pc["tag"] != "ok":
            F("C11|parse_bech32|%s|expected=value|got=%s" % (btag, pc["tag"]), "parse_bech32(%r) raised" % _text(s), got=pc)
        elif not b32["ok"] or not b32["data"]:
            if pc.get("ok") is not False:
                F("C11|parse_bech32|%s|expected=None|got=value" % btag, "parse_bech32(%r) must be None" % _text(s), got=pc)
        elif dec["ok"] or dec["why"] == "hrp-mismatch":
            pass_hrp = b32["hrp"]
            if dec["ok"] and pc != {"tag": "ok", "ok": True, "hrp": pass_hrp, "ver": dec["ver"], "prog": dec["prog"], "spec": b32["spec"]}:
                F("C11|parse_bech32|%s|expected=value|got=other" % btag, "parse_bech32(%r) = %s" % (_text(s), pc), got=pc)
        # network layer: never a contract for a string the rules reject
        n = drv.net_parse_address(hrp, s)
        if n["tag"] != "n/a":
            if n["tag"] != "ok":
                F("C11|network.parse.address|%s|expected=%s|got=%s" % (tagk, "contract" if dec["ok"] else "None", n["tag"]),
                  "network.parse.address(%r) raised" % _text(s), got=n)
            elif not dec["ok"]:
                if n["script"] is not None:
                    F("C11|network.parse.address|%s|expected=None|got=contract" % tagk,
                      "network.parse.address(%r) accepted a string the BIP rules reject (%s)" % (_text(s), dec["why"]), got=n)
            elif (dec["ver"], len(dec["prog"])) in ((0, 20), (0, 32), (1, 32)):
                want = [0 if dec["ver"] == 0 else 0x50 + dec["ver"], len(dec["prog"])] + dec["prog"]
                if n["script"] != want:
                    F("C11|network.parse.address|%s|expected=contract|got=%s" % (tagk, "None" if n["script"] is None else "other-script"),
                      "network.parse.address(%r) must give script %s" % (_text(s), bytes(want).hex()), got=n)
                elif n["again"] != "".join(chr(c + 32 if 65 <= c <= 90 else c) for c in s):
                    F("C11|network.parse.address|%s|expected=same-address|got=other" % tagk, "contract.address() != input", got=n)
        return (k, cls, dec["why"], b32["why"]), fails

    if k in ("bits8", "bits5"):
        x = rec["x"]
        o = drv.convertbits(x, 8, 5, True) if k == "bits8" else drv.convertbits(x, 5, 8, False)
        want = rec["out"] if rec["ok"] else None
        cls = "n%%8=%d" % ((5 * len(x)) % 8) if k == "bits5" else "n%%5=%d" % ((8 * len(x)) % 5)
        if o["tag"] != "ok" or o["out"] != want:
            F("C11|convertbits|%s|%s|expected=%s|got=%s" % (k, cls, "list" if rec["ok"] else "None", o["tag"] if o["tag"] != "ok" else ("None" if o["out"] is None else "list")),
              "convertbits(%s, %s) = %s, the regrouping rule gives %s" % (x, "8, 5, True" if k == "bits8" else "5, 8, False", o["out"], want), got=o)
        return (k, cls, rec["ok"]), fails
    if k in ("grp", "root"):
        return None, fails
    raise MachineryError("unknown record kind %r" % (rec,))


def _chunk(recs):
    n = 0
    fails = []
    classes = set()
    for rec in recs:
        ck, fl = check_record(rec)
        if ck is None:
            continue
        n += 1
        classes.add(ck)
        fails += fl[:3]
    return n, fails[:200], classes


class Stream:
    """feeds TLC records to worker processes while TLC is still running"""

    def __init__(self, ctx, procs=None):
        import multiprocessing as mp
        self.ctx = ctx
        self.pool = mp.get_context("fork").Pool(procs or NPROC)
        self.buf = []
        self.pending = []
        self.n = 0
        self.fails = []
        self.classes = set()
        self.seen = 0

    def feed(self, rec):
        self.seen += 1
        if self.seen % 4001 == 7:
            self.ctx.sample(rec)
        self.buf.append(rec)
        if len(self.buf) >= 300:
            self._flush()

    def _flush(self):
        if self.buf:
            self.pending.append(self.pool.apply_async(_chunk, (self.buf,)))
            self.buf = []
        while len(self.pending) > 6 * NPROC:
            self._collect(self.pending.pop(0))

    def _collect(self, ar):
        n, fails, classes = ar.get()
        self.n += n
        self.fails += fails
        self.classes |= classes

    def finish(self):
        self._flush()
        for ar in self.pending:
            self._collect(ar)
        self.pending = []
        self.pool.close()
        self.pool.join()
        return self


def replay_mode(ctx, cfg, env=None, workers=16, timeout=1500):
    st = Stream(ctx)
    r = ctx.tlc("MC_C11Replay", cfg, on_record=st.feed, keep_records=False, env=env or {}, workers=workers, timeout=timeout)
    st.finish()
    ctx.replayed += st.n
    ctx.case(None, st.n)
    for c in st.classes:
        ctx.case(("replay",) + tuple(c), 0)
    ctx.action("replay." + cfg, st.n)
    for key, what, detail in st.fails:
        ctx.fail(key, what, detail)
    ctx.log("replayed %d cases of %s on pycoin: %d disagreements in %d classes" % (
        st.n, cfg, len(st.fails), len({f[0] for f in st.fails})))
    if st.n == 0:
        raise MachineryError("no case exported by %s" % cfg)
    return st, r


# ---------------------------------------------------------------- ground truth (R2)

BIP173_VALID = [
    "A12UEL5L", "a12uel5l",
    "an83characterlonghumanreadablepartthatcontainsthenumber1andtheexcludedcharactersbio1tt5tgs",
    "abcdef1qpzry9x8gf2tvdw0s3jn54khce6mua7lmqqqxw",
    "11qqqqqqqqqqqqqqqqqqqqqqqqqqqqqqqqqqqqqqqqqqqqqqqqqqqqqqqqqqqqqqqqqqqqqqqqqqqqqqqqqqc8247j",
    "split1checkupstagehandshakeupstreamerranterredcaperred2y9e3w",
    "?1ezyfcl",
]
BIP173_INVALID = [
    "\x201nwldj5", "\x7f1axkwrx", "\x801eym55h",
    "an84characterslonghumanreadablepartthatcontainsthenumber1andtheexcludedcharactersbio1569pvx",
    "pzry9x0s0muk", "1pzry9x0s0muk", "x1b4n0q5v", "li1dgmt3", "de1lg7wt\xff", "A1G7SGD8", "10a06t8", "1qzzfhee",
]
# BIP173 addresses that stay valid under BIP350 (version 0), with their scriptPubKey
BIP173_ADDRESSES = [
    ("BC1QW508D6QEJXTDG4Y5R3ZARVARY0C5XW7KV8F3T4", "0014751e76e8199196d454941c45d1b3a323f1433bd6"),
    ("tb1qrp33g0q5c5txsp9arysrx4k6zdkfs4nce4xj0gdcccefvpysxf3q0sl5k7", "00201863143c14c5166804bd19203356da136c985678cd4d27a1b8c6329604903262"),
    ("tb1qqqqqp399et2xygdj5xreqhjjvcmzhxw4aywxecjdzew6hylgvsesrxh6hy", "0020000000c4a5cad46221b2a187905e5266362b99d5e91c6ce24d165dab93e86433"),
]
BIP173_BAD_ADDRESSES = [
    "tc1qw508d6qejxtdg4y5r3zarvary0c5xw7kg3g4ty", "bc1qw508d6qejxtdg4y5r3zarvary0c5xw7kv8f3t5",
    "BC13W508D6QEJXTDG4Y5R3ZARVARY0C5XW7KN40WF2", "bc1rw5uspcuh",
    "bc10w508d6qejxtdg4y5r3zarvary0c5xw7kw508d6qejxtdg4y5r3zarvary0c5xw7kw5rljs90",
    "BC1QR508D6QEJXTDG4Y5R3ZARVARYV98GJ9P",
    "tb1qrp33g0q5c5txsp9arysrx4k6zdkfs4nce4xj0gdcccefvpysxf3q0sL5k7",
    "bc1zw508d6qejxtdg4y5r3zarvaryvqyzf3du",
    "tb1qrp33g0q5c5txsp9arysrx4k6zdkfs4nce4xj0gdcccefvpysxf3pjxtptv", "bc1gmk9yu",
]


def _test_vectors():
    """the lists pycoin's own tests carry (BIP350 in bech32_test.py, base58 pairs in encoding_test.py)"""
    out = {"VALID": [], "INVALID": [], "ADDRESSES": [], "BAD_ADDRESSES": [], "b58": [], "b58c": []}
    tree = ast.parse(open(os.path.join(REPO, "tests", "bech32_test.py")).read())
    for node in ast.walk(tree):
        if isinstance(node, ast.Assign) and len(node.targets) == 1 and isinstance(node.targets[0], ast.Name):
            name = node.targets[0].id
            if name not in out:
                continue
            v = node.value
            if isinstance(v, ast.Call) and isinstance(v.func, ast.Attribute) and isinstance(v.func.value, ast.Constant):
                out[name] = v.func.value.value.split()           # """...""".split()
            elif isinstance(v, ast.List):
                out[name] = [e.value for e in v.elts]
            elif isinstance(v, ast.Constant):
                out[name] = [ln.strip() for ln in v.value.split("\n") if ln.strip()]
    tree = ast.parse(open(os.path.join(REPO, "tests", "encoding_test.py")).read())
    for fn in ast.walk(tree):
        if isinstance(fn, ast.FunctionDef) and fn.name in ("test_to_from_base58", "test_to_from_hashed_base58"):
            for node in ast.walk(fn):
                if (isinstance(node, ast.Call) and isinstance(node.func, ast.Name) and node.func.id == "do_test"
                        and len(node.args) == 2 and isinstance(node.args[0], ast.Constant)):
                    hx = node.args[1]
                    if isinstance(hx, ast.Call) and hx.args:
                        try:
                            hexs = ast.literal_eval(hx.args[0])
                        except Exception:
                            continue
                        out["b58" if fn.name == "test_to_from_base58" else "b58c"].append((node.args[0].value, hexs))
    return out


def ground_truth(ctx):
    tv = _test_vectors()
    if len(tv["VALID"]) < 5 or len(tv["INVALID"]) < 10 or len(tv["ADDRESSES"]) < 5 or len(tv["BAD_ADDRESSES"]) < 10 or not tv["b58"] or not tv["b58c"]:
        raise MachineryError("could not extract the vector lists from REPO/tests: %s" % {k: len(v) for k, v in tv.items()})
    V = []

    def add(**kw):
        V.append(kw)
    for s in tv["VALID"]:
        add(t="b32", s=drv.codes(s), want=2, src="BIP350 valid")
    for s in BIP173_VALID:
        add(t="b32", s=drv.codes(s), want=1, src="BIP173 valid")
    for s in tv["INVALID"]:
        add(t="b32", s=drv.codes(s), want=0, src="BIP350 invalid")
    for s in BIP173_INVALID:
        add(t="b32", s=drv.codes(s), want=0, src="BIP173 invalid")
    for line in tv["ADDRESSES"]:
        a, spk = [x.strip() for x in line.split(": ")]
        add(t="seg", s=drv.codes(a), hrp=drv.codes(a[:a.rfind("1")].lower()), want=spk, src="BIP350 address")
    for a, spk in BIP173_ADDRESSES:
        add(t="seg", s=drv.codes(a), hrp=drv.codes(a[:a.rfind("1")].lower()), want=spk, src="BIP173 address")
    for line in tv["BAD_ADDRESSES"]:
        a = line.split(": ")[0].strip()
        for hrp in ("bc", "tb"):
            add(t="seg", s=drv.codes(a), hrp=drv.codes(hrp), want="", src="BIP350 invalid address")
    for a in BIP173_BAD_ADDRESSES:
        for hrp in ("bc", "tb"):
            add(t="seg", s=drv.codes(a), hrp=drv.codes(hrp), want="", src="BIP173 invalid address")
    for text, hx in tv["b58"]:
        add(t="b58", s=drv.codes(text), b=list(bytes.fromhex(hx)), src="encoding_test base58")
    for text, hx in tv["b58c"]:
        b = list(bytes.fromhex(hx))
        add(t="b58c", s=drv.codes(text), b=b, h4=_h4(b), src="encoding_test hashed base58")
    fd, path = tempfile.mkstemp(prefix="vf-c11-vec-", suffix=".json")
    with os.fdopen(fd, "w") as f:
        json.dump(V, f)
    try:
        r = ctx.tlc("MC_C11Replay", "MC_C11Replay_vec", env={"C11_VEC_FILE": path}, workers=4, count=False)
    finally:
        os.unlink(path)
    got = {rec["i"]: rec for rec in r.records if rec.get("k") == "vec"}
    if len(got) != len(V):
        raise MachineryError("vec run returned %d of %d vectors" % (len(got), len(V)))
    bad = []
    for i, v in enumerate(V, 1):
        g = got[i]
        low = [c + 32 if 65 <= c <= 90 else c for c in v["s"]]
        if v["t"] == "b32":
            if g["b32"]["spec"] != v["want"] or (v["want"] and g["re"] != low):
                bad.append((v["src"], _text(v["s"]), g))
        elif v["t"] == "seg":
            d = g["dec"]
            if v["want"]:
                spk = bytes.fromhex(v["want"])
                if not d["ok"] or [0 if d["ver"] == 0 else d["ver"] + 0x50, len(d["prog"])] + d["prog"] != list(spk) or g["re"] != low:
                    bad.append((v["src"], _text(v["s"]), g))
            elif d["ok"]:
                bad.append((v["src"], _text(v["s"]), g))
        elif v["t"] == "b58":
            if g["s"] != v["s"] or g["d"] != {"ok": True, "b": v["b"]}:
                bad.append((v["src"], _text(v["s"]), g))
        else:
            sp = g["sp"]
            if g["s"] != v["s"] or not sp["ok"] or sp["payload"] != v["b"] or sp["cks"] != v["h4"]:
                bad.append((v["src"], _text(v["s"]), g))
    if bad:
        raise MachineryError("the specification disagrees with published vectors: %s" % (bad[:3],))
    ctx.extra["ground_truth_vectors"] = len(V)
    ctx.log("ground truth: %d published vectors agree with Base58.tla / Bech32.tla" % len(V))
    return V


# ---------------------------------------------------------------- traces (code -> spec)

_HRP_CHARS = [c for c in range(33, 127) if not 65 <= c <= 90]


def _rnd_bytes(rnd, maxlen):
    mode = rnd.random()
    n = rnd.randint(0, maxlen)
    if mode < 0.15:
        return [0] * n
    z = rnd.choice([0, 0, 1, 2, rnd.randint(0, 30)])
    body = [rnd.randrange(256) for _ in range(max(0, n - z))]
    return [0] * min(z, n) + body


def _ev(op, **kw):
    """execute one call on pycoin and log it"""
    if op == "b2a58":
        e = drv.b58_encode(kw["in"])
        return {"op": op, "in": kw["in"], "ok": e["tag"] == "ok", "out": e["s"] or []}
    if op == "a2b58":
        d = drv.b58_decode(kw["in"])
        return {"op": op, "in": kw["in"], "ok": d["tag"] == "ok", "out": d["b"] or [], "tag": d["tag"]}
    if op == "b2a58h":
        e = drv.b58check_encode(kw["in"])
        return {"op": op, "in": kw["in"], "ok": e["tag"] == "ok", "out": e["s"] or []}
    if op == "a2b58h":
        o = drv.b58check_decode(kw["in"])
        return {"op": op, "in": kw["in"], "ok": o["a2b"]["tag"] == "ok", "out": o["a2b"]["p"] or [], "tag": o["a2b"]["tag"],
                "valid": bool(o["is_valid"]["v"]), "parsed": o["parse"]["p"] is not None}
    if op == "segenc":
        e = drv.seg_encode(kw["hrp"], kw["ver"], kw["prog"])
        return {"op": op, "hrp": kw["hrp"], "ver": kw["ver"], "prog": kw["prog"], "ok": e["tag"] == "ok" and e["s"] is not None,
                "out": e["s"] or [], "tag": e["tag"]}
    if op == "segdec":
        d = drv.seg_decode(kw["hrp"], kw["in"])
        return {"op": op, "hrp": kw["hrp"], "in": kw["in"], "ok": bool(d.get("ok")), "ver": d.get("ver", 0) or 0, "prog": d.get("prog") or [], "tag": d["tag"]}
    if op == "b32dec":
        bd = drv.b32_decode(kw["in"])
        return {"op": op, "in": kw["in"], "ok": bool(bd.get("ok")), "hrp": bd.get("hrp") or [], "data": bd.get("data") or [],
                "spec": bd.get("spec") or 0, "tag": bd["tag"]}
    raise MachineryError("unknown op %r" % op)


_ARGS = {"b2a58": ("in",), "a2b58": ("in",), "b2a58h": ("in",), "a2b58h": ("in",),
         "segenc": ("hrp", "ver", "prog"), "segdec": ("hrp", "in"), "b32dec": ("in",)}


def reexecute(tr):
    """run the inputs of a recorded session again on the pycoin under test"""
    return {"ev": [_ev(e["op"], **{k: e[k] for k in _ARGS[e["op"]]}) for e in tr["ev"]]}


def record_traces(seed, count, maxlen):
    """seeded sessions on pycoin; every event is (op, input, what pycoin answered)"""
    rnd = random.Random(seed)
    A58 = drv.codes(drv.b58.BASE58_ALPHABET.decode())
    C32 = drv.codes(drv.bech32m.CHARSET)
    traces = []
    for t in range(count):
        ev = []
        kind = t % 3
        if kind == 0:
            b = _rnd_bytes(rnd, maxlen)
            ev.append(_ev("b2a58", **{"in": b}))
            s = ev[-1]["out"]
            ev.append(_ev("a2b58", **{"in": s}))
            # a random alphabet string, then the same with one outsider
            s2 = [rnd.choice(A58) if rnd.random() > 0.2 else 49 for _ in range(rnd.randint(0, maxlen))]
            ev.append(_ev("a2b58", **{"in": s2}))
            if ev[-1]["ok"]:
                ev.append(_ev("b2a58", **{"in": ev[-1]["out"]}))
            if s2:
                s3 = list(s2)
                s3[rnd.randrange(len(s3))] = rnd.choice([48, 79, 73, 108, 32, 45, 95, 126, 228, 0x20AC])
                ev.append(_ev("a2b58", **{"in": s3}))
        elif kind == 1:
            p = rnd.choice([[], [0], [5], [128], [111], [4, 136, 178, 30]]) + _rnd_bytes(rnd, min(maxlen, 80))
            ev.append(_ev("b2a58h", **{"in": p}))
            s = ev[-1]["out"]
            cands = [s]
            if s:
                for _ in range(3):
                    s2 = list(s)
                    for _ in range(rnd.randint(1, 3)):
                        s2[rnd.randrange(len(s2))] = rnd.choice(A58)
                    cands.append(s2)
                cands.append(s[:rnd.randrange(len(s))])
                cands.append(s + [rnd.choice(A58)])
                s4 = list(s)
                s4[rnd.randrange(len(s4))] = rnd.choice([48, 79, 73, 108, 32])
                cands.append(s4)
            for c in cands:
                ev.append(_ev("a2b58h", **{"in": c}))
        else:
            hl = rnd.choice([1, 2, 2, 2, 3, 4, rnd.randint(1, 25)])
            hrp = [rnd.choice(_HRP_CHARS) for _ in range(hl)] if rnd.random() < 0.5 else rnd.choice([[98, 99], [116, 98], [98, 99, 114, 116], [108, 116, 99]])
            ver = rnd.choice([0, 0, 1, 1, rnd.randint(0, 16), rnd.randint(0, 16), rnd.randint(17, 31)])
            n = rnd.choice([20, 32, 20, 32, rnd.randint(0, 42), rnd.randint(2, 40)])
            prog = [rnd.randrange(256) for _ in range(n)]
            ev.append(_ev("segenc", hrp=hrp, ver=ver, prog=prog))
            s = ev[-1]["out"] if ev[-1]["ok"] else None
            if s is None:
                # forge the raw string with pycoin's low level encoder to exercise the decoder's rules
                conv = drv.convertbits(prog, 8, 5, True)["out"] or []
                s = drv.b32_encode(hrp, [ver] + conv, 1 if ver == 0 else 2)["s"] or []
            cands = [(hrp, s), (hrp, [c - 32 if 97 <= c <= 122 else c for c in s])]
            if s:
                for w in (1, 2, 3, 4):
                    s2 = list(s)
                    for _ in range(w):
                        i = rnd.randrange(len(hrp) + 1, len(s2))
                        s2[i] = rnd.choice(C32)
                    cands.append((hrp, s2))
                s3 = list(s)
                i = rnd.randrange(len(s3))
                s3[i] = s3[i] - 32 if 97 <= s3[i] <= 122 else rnd.choice([98, 105, 111, 32, 127, 200])
                cands.append((hrp, s3))
                cands.append((hrp + [120], s))
                cands.append((hrp, s[:-1]))
            for h, c in cands:
                ev.append(_ev("segdec", **{"hrp": h, "in": c}))
            ev.append(_ev("b32dec", **{"in": cands[-3][1] if len(cands) > 3 else s}))
        traces.append({"ev": ev})
    return traces


def _run_trace_tlc(ctx, traces, phase, count_states=False):
    fd, path = tempfile.mkstemp(prefix="vf-c11-traces-", suffix=".json")
    with os.fdopen(fd, "w") as f:
        json.dump(traces, f)
    try:
        r = ctx.tlc("Trace_C11", "Trace_C11_" + phase, workers=1, env={"TRACE_FILE": path}, count=False, timeout=1500)
    finally:
        os.unlink(path)
    return r


def validate_traces(ctx, traces):
    """two TLC passes: 'terms' names the hashes needed, the evaluator answers, 'check' validates.
    returns the list of rejected trace indices (0-based)"""
    traces = copy.deepcopy(traces)
    for tr in traces:
        for e in tr["ev"]:
            e.setdefault("hq", {"arg": [], "h4": []})
    r = _run_trace_tlc(ctx, traces, "terms")
    for rec in r.records:
        if rec.get("k") != "tterm":
            continue
        e = traces[rec["tid"] - 1]["ev"][rec["l"] - 1]
        e["hq"] = {"arg": list(eval_term(rec["t"]["arg"]["arg"])), "h4": list(eval_term(rec["t"]))}
    r = _run_trace_tlc(ctx, traces, "check")
    verdict = [rec for rec in r.records if rec.get("k") == "rejected"]
    if len(verdict) != 1 or verdict[0]["n"] != len(traces):
        raise MachineryError("trace run printed no verdict: %s" % r.raw_tail[-5:])
    ids = verdict[0]["ids"]
    return sorted(int(x) - 1 for x in (ids if isinstance(ids, list) else []))


def _trace_key(tr):
    ops = sorted({e["op"] for e in tr["ev"]})
    tags = sorted({e.get("tag", "ok") for e in tr["ev"]} - {"ok", "EncodingError"})
    return "C11|trace|ops=%s|exc=%s" % ("+".join(ops), "+".join(tags) or "none")


# ---------------------------------------------------------------- the check

def _expected_count(r):
    for line in r.printed:
        m = re.search(r'"EXPECTED",\s*(\d+)', line)
        if m:
            return int(m.group(1))
    raise MachineryError("MC_Bech32Syn did not print the expected pattern count")


def run(ctx):
    q = ctx.quick
    only = getattr(ctx, "only", None)

    def on(stage):
        return only is None or stage in only
    ctx.rule = ("replay: every case MC_C11Replay prints (byte strings over {0,1,57,58,255} up to length 6, character strings over "
                "alphabet/non-alphabet symbols, long zero-prefixed inputs, byte strings of 186..1024 bytes, Base58Check payload list "
                "(to 1020 bytes) x corruption classes, "
                "(hrp, version symbol, length 0..42, pattern) grid, corruption classes of valid addresses) executed on pycoin; "
                "distinct_nontrivial = distinct (record kind, input class, spec verdict/reason, length bucket) tuples")
    ctx.assumptions += [
        "TLC/SANY, CPython, hashlib.sha256 (the evaluator of First4(SHA256d(.)) terms)",
        "TLC's 64-bit state fingerprints: the syndrome-distinctness count (MC_Bech32Syn) is exact unless two of 3.77M states collide (p < 1e-6)",
        "expected human-readable parts are lower case (BIP173: encoders emit lower case); version symbols are 0..31",
        "the <=4-substitution guarantee is the BCH code's: data-part characters, version character staying in its class (0 / 1..16); "
        "across the Bech32/Bech32m constants BIP350 itself has valid strings 4 characters apart (lemma CrossWitness)",
    ]
    W = 16
    # ---- 4. code -> spec: recorded now, validated by TLC (1 worker) in the background while the other stages run
    tstate = {}
    tthread = None
    if on("traces"):
        ntr = 360 if q else 1500
        traces = record_traces(ctx.seed * 7919 + 11, ntr, 60 if q else 140)

        def _bg():
            try:
                out = []
                for chunk in split(traces, max(1, len(traces) // 300)):
                    out.append((chunk, validate_traces(ctx, chunk)))
                tstate["out"] = out
            except BaseException as e:  # noqa: BLE001 - re-raised in the main thread
                tstate["err"] = e
        import threading
        tthread = threading.Thread(target=_bg)
        tthread.start()
    # ---- 1. lemmas
    if on("lemmas"):
        ctx.tlc("MC_Base58", "MC_Base58_q" if q else "MC_Base58_t", workers=W, timeout=1500)
        for fam in ("roundtrip", "bits", "subst", "affine"):
            ctx.tlc("MC_Bech32", "MC_Bech32_%s_%s" % (fam, "q" if q else "t"), workers=W, timeout=1500)
        r = ctx.tlc("MC_Bech32Syn", "MC_Bech32Syn_89", workers=W, timeout=1500)
        exp = _expected_count(r)
        if r.distinct != exp:
            raise MachineryError("syndrome lemma fails inside BIP173's window of 89: %d distinct of %d patterns" % (r.distinct, exp))
        ctx.extra["bch_patterns_weight_le2_window89"] = exp
        ctx.extra["cross_constant_witness"] = ("bc1qw508d6qejxtdg4y5r3zarvary0c5xw7kv8f3t4 (v0) / bc1tw508d6qejxtdg4y5r3zarvnry0c5xw7k8803t4 (v11): "
                                               "both valid under BIP350, 4 characters apart (ASSUME CrossWitness); the <=4 guarantee is per constant")
        if not q:
            r = ctx.tlc("MC_Bech32Syn", "MC_Bech32Syn_90", workers=W, timeout=1500, count=False)
            ctx.selftest("syndrome_lemma_has_teeth_window90", r.distinct < _expected_count(r))
        r = ctx.tlc("MC_Base58", "MC_Base58_mut", workers=4, expect_ok=False, count=False)
        ctx.selftest("base58_lemmas_reject_zero_miscount_model", (not r.ok) and r.violated in ("RoundTripBytes", "ZeroCount", "RoundTripText"))
    # ---- 2. ground truth
    if on("vec"):
        ground_truth(ctx)
    # ---- 3. spec -> code
    if on("b58"):
        st, _ = replay_mode(ctx, "MC_C11Replay_b58_q" if q else "MC_C11Replay_b58_t")
        lens = {(c[1], c[2]) for c in st.classes if c[0] == "b58enc"}
        need = {(z, n) for z in ("lead0", "lead1", "leadN", "allzero") for n in ("<=256", "<=512", "<=1024")}
        if need - lens:
            raise MachineryError("vacuity: Base58 replay misses long inputs %s" % sorted(need - lens))
    if on("b58c"):
        r = ctx.tlc("MC_C11Replay", "MC_C11Replay_terms", workers=4, count=False)
        if len(r.records) < 100:
            raise MachineryError("vacuity: only %d checksum terms" % len(r.records))
        terms = sorted((rec for rec in r.records if rec.get("k") == "term"), key=lambda x: x["i"])
        H = [{"p": list(eval_term(t["p"])), "h4": list(eval_term(t["t"]))} for t in terms]
        fd, hpath = tempfile.mkstemp(prefix="vf-c11-h4-", suffix=".json")
        with os.fdopen(fd, "w") as f:
            json.dump(H, f)
        try:
            st, _ = replay_mode(ctx, "MC_C11Replay_b58c_q" if q else "MC_C11Replay_b58c_t", env={"C11_H4_FILE": hpath})
            seen = {(c[1], c[2]) for c in st.classes if c[0] == "b58c"}
            need = {("valid", ""), ("cks-flip", "checksum"), ("sub-alpha", "checksum"), ("sub-nonalpha", "alphabet"), ("trunc", "short"),
                    ("trunc", "checksum"), ("payload-flip", "checksum")}
            if need - seen:
                raise MachineryError("vacuity: Base58Check replay misses classes %s" % sorted(need - seen))
            lens = {(c[1], c[3]) for c in st.classes if c[0] == "b58c"}
            if not {("valid", "<=512"), ("valid", "<=1024"), ("valid", ">1024")} <= lens:
                raise MachineryError("vacuity: Base58Check replay has no long strings: %s" % sorted(lens))
        finally:
            os.unlink(hpath)
    if on("bits"):
        replay_mode(ctx, "MC_C11Replay_bits_q" if q else "MC_C11Replay_bits_t", workers=4)
    if on("seg"):
        st, _ = replay_mode(ctx, "MC_C11Replay_seg_q" if q else "MC_C11Replay_seg_t")
        seen = {c[2] for c in st.classes if c[0] == "seg"}
        if {"", "program-length", "version", "too-long"} - seen:
            raise MachineryError("vacuity: seg grid misses verdicts %s" % sorted({"", "program-length", "version", "too-long"} - seen))
    if on("corr"):
        st, _ = replay_mode(ctx, "MC_C11Replay_corr_q" if q else "MC_C11Replay_corr_t", env={"C11_SEED": ctx.seed})
        # vacuity guard: every rejection rule of Bech32.tla decides at least one replayed case, and some cases are accepted
        seen = {c[2] for c in st.classes if c[0] == "corr"}
        forms = {c[1] for c in st.classes if c[0] == "corr" and c[2] == "char-range"}
        if not {"nonascii-lower", "nonascii-upper", "nonascii-mixed", "bad-char"} <= forms:
            raise MachineryError("vacuity: character-range cases miss a class: %s" % sorted(forms))
        need = {"", "char-range", "mixed-case", "too-long", "no-separator", "empty-hrp", "short-data", "data-char", "checksum",
                "hrp-mismatch", "no-version", "version", "padding-length", "padding-nonzero", "program-length", "wrong-constant"}
        if need - seen:
            raise MachineryError("vacuity: no corruption case is decided by rule(s) %s" % sorted(need - seen))
    # binding self-test of the replay: corrupted expectations must be noticed
    if on("selftest") or on("b58"):
        good = {"k": "b58enc", "b": [0, 0, 1], "s": [49, 49, 50]}
        ok0 = check_record(good)[1] == []
        bad1 = check_record({"k": "b58enc", "b": [0, 0, 1], "s": [49, 50]})[1]
        segrec = {"k": "corr", "cls": "valid", "hrp": drv.codes("bc"), "s": drv.codes("bc1qw508d6qejxtdg4y5r3zarvary0c5xw7kv8f3t4"),
                  "dec": {"ok": True, "why": "", "ver": 0, "prog": list(bytes.fromhex("751e76e8199196d454941c45d1b3a323f1433bd6"))},
                  "b32": {"ok": True, "why": "", "hrp": drv.codes("bc"), "spec": 1,
                          "data": [0] + drv.convertbits(bytes.fromhex("751e76e8199196d454941c45d1b3a323f1433bd6"), 8, 5, True)["out"]}}
        ok1 = check_record(segrec)[1] == []
        bad2rec = copy.deepcopy(segrec)
        bad2rec["dec"]["prog"][-1] ^= 1
        bad2 = check_record(bad2rec)[1]
        bad3rec = copy.deepcopy(segrec)
        bad3rec["dec"] = {"ok": False, "why": "checksum", "ver": 0, "prog": []}
        bad3 = check_record(bad3rec)[1]
        ctx.selftest("replay_rejects_corrupted_expectation", ok0 and ok1 and bool(bad1) and bool(bad2) and bool(bad3))
    # ---- 4b. verdict on the traces
    if tthread is not None:
        tthread.join()
        if "err" in tstate:
            raise tstate["err"]
        nev = 0
        all_rej = []
        base = 0
        for ci, (chunk, rej) in enumerate(tstate["out"]):
            all_rej += [base + i for i in rej]
            base += len(chunk)
            ctx.traces += len(chunk) - len(rej)
            n = sum(len(t["ev"]) for t in chunk)
            nev += n
            ctx.case(None, n)
            if ci == 0:
                ctx.sample({"trace": chunk[2]["ev"][:2]})
            for i in rej:
                ctx.fail(_trace_key(chunk[i]), "a recorded pycoin session is not explained by Base58.tla/Bech32.tla: %s" % json.dumps(chunk[i])[:600], chunk[i])
        ctx.action("trace.events", nev)
        ctx.log("traces: %d sessions (%d events) recorded, %d accepted by Trace_C11" % (len(traces), nev, ctx.traces))
        # binding self-test: one corrupted field per session kind must be rejected (sessions TLC accepted)
        rejected_all = set(all_rej)
        picks = []
        for kind in (0, 1, 2):
            for i in range(kind, len(traces), 3):
                if i not in rejected_all:
                    picks.append(copy.deepcopy(traces[i]))
                    break
        batch = []
        for tr in picks:
            bad = copy.deepcopy(tr)
            op = bad["ev"][0]["op"]
            if op == "b2a58":
                bad["ev"][0]["out"] = bad["ev"][0]["out"] + [49]
            elif op == "b2a58h":
                bad["ev"][1]["ok"] = not bad["ev"][1]["ok"]
            else:
                e = [x for x in bad["ev"] if x["op"] == "segdec"][0]
                e["ok"] = not e["ok"]
            batch += [tr, bad]
        if not batch:
            raise MachineryError("no recorded session was accepted: cannot run the trace binding self-test")
        rej = validate_traces(ctx, batch)
        ctx.selftest("trace_rejects_corrupted_field", rej == list(range(1, len(batch), 2)))
    ctx.exhaustive = False


def replay(ctx, obj):
    """./check C11 --replay FILE : re-run one recorded failing case on the pycoin under test"""
    detail = obj.get("detail") or {}
    rec = detail.get("record")
    if rec is None and "ev" in detail:
        tr = reexecute(detail)
        rej = validate_traces(ctx, [tr])
        if rej:
            print("still failing: the session re-executed on this pycoin is rejected by Trace_C11:", obj["key"])
            for e in tr["ev"]:
                print("  ", json.dumps(e)[:300])
            ctx.violations[obj["key"]] = "-"
        else:
            print("session passes now (%d events re-executed and accepted by Trace_C11)" % len(tr["ev"]))
        return
    if rec is None:
        print(json.dumps(obj, indent=1))
        return
    _, fails = check_record(rec)
    for key, what, detail in fails:
        print("still failing:", key, "\n  ", what)
        ctx.violations[key] = "-"
    if not fails:
        print("case passes now:", json.dumps(rec)[:300])
