"""C01 - ECDSA sign / verify / recover with RFC 6979 nonces.

1. ground truth: spec/RFC6979.tla (term mode and oracle mode) must reproduce the RFC's own vectors found in
            REPO/tests/ecdsa/rfc6979_test.py before anything judges pycoin (R2).
2. model:   TLC checks the lemmas of spec/ECDSA.tla on toy curves (MC_ECDSA_*.cfg).
3. replay:  TLC prints, per toy curve, the signing machine's result for every (d, z, first nonce), the set of
            accepted (r, s) for every (key, hash) and the recoverable keys for every (z, r, s)
            (MC_ECDSAReplay_*.cfg); all of it is executed on pycoin's Generator.  RFC 6979 terms for toy and
            production orders (MC_RFC6979) are evaluated with hmac and pycoin's nonce and signature must be the
            ones they determine - on pure-Python and OpenSSL-backed secp256k1/secp256r1 (fresh subprocesses),
            together with the tamper classes and the Key.sign/Key.verify DER wrapper.
4. traces:  seeded random sign/verify/recover calls on curves of a few hundred points and on the production
            curves are recorded with every HMAC invocation and validated by TLC (spec/Trace_ECDSA.tla).
"""
from __future__ import annotations

import copy
import json
import os
import random
import tempfile

from .. import ecterms
from ..ctx import REPO, MachineryError
from ..drv import ec as ecdrv
from ..drv import ecdsa as drv
from ..ecutil import CURVES, tlc_many
from ..par import NPROC, pmap
from ..refec import RefCurve

_T = {}       # curve key -> {"sign": {(d, z % n, k0): rec}, "ver": [...], "rec": [...]}
_GEN = {}
BIG = 1 << 200


def _gen(ck):
    if ck not in _GEN:
        _GEN[ck] = ecdrv.toy_generator(CURVES[ck], 5 % CURVES[ck][4])
    return _GEN[ck]


def _only(ctx, name):
    only = getattr(ctx, "only", None)
    return only is None or name in only


# ----------------------------------------------------------------------------- toy replay units

def _oor_class(r, s, n):
    return ("r<1" if r < 1 else "r>=n" if r >= n else "s<1" if s < 1 else "s>=n")


def _ver_unit(args):
    ck, Q, z, acc, quick = args
    p, a, b, G, n = CURVES[ck]
    g = _gen(ck)
    ref = RefCurve(p, a, b, G, n)
    accset = {tuple(x) for x in acc}
    fails, cnt = [], 0
    classes = set()
    Qs = [tuple(Q)]

    def check(Qq, zz, r, s, want, variant):
        nonlocal cnt
        got = drv.call(lambda: g.verify(Qq, zz, (r, s)))
        cnt += 1
        if got is want:
            return
        inr = 1 <= r < n and 1 <= s < n
        if inr and drv.ref_sum_is_infinity(ref, Q, zz, r, s):
            cls = "sum_is_infinity"
        elif inr:
            cls = "in_range"
        else:
            cls = "out_of_range:" + _oor_class(r, s, n)
        if len(fails) < 4:
            fails.append(("C01|verify|%s|expected=%s|got=%s" % (cls, want, got),
                          "verify(Q=%s, z=%d, (r=%d, s=%d)) on curve %s (%s): spec %s, pycoin %s" % (list(Qq), zz, r, s, ck, variant, want, got),
                          {"curve": ck, "Q": list(Qq), "z": zz, "r": r, "s": s, "expected": want, "got": got}))
    grid = list(range(-1, n + 2)) + [2 * n - 1, 2 * n] + ([] if quick or n > 19 else list(range(n + 2, 2 * n - 1)))
    for r in grid:
        for s in grid:
            check(Qs[0], z, r, s, (r, s) in accset, "grid")
    classes.add((ck, "ver", z % n == 0, z >= n, len(accset)))
    # the accepted cells and a few others again with z + n*2^200 (only z mod n matters: lemma ZPeriodic)
    rnd = random.Random(z * 1000 + Q[0])
    extra = sorted(accset)[::2] + [(rnd.randrange(1, n), rnd.randrange(1, n)) for _ in range(4)]
    for r, s in extra:
        check(Qs[0], z + n * BIG, r, s, (r, s) in accset, "z + n*2^200")
    return cnt, classes, fails


def _sign_unit(args):
    ck, d, recs = args
    p, a, b, G, n = CURVES[ck]
    g = _gen(ck)
    fails, cnt, classes, queue = [], 0, set(), []
    for rec in recs:
        z, k0 = rec["z"], rec["k0"]
        want = (rec["r"], rec["s"], rec["recid"])
        got = drv.call(lambda: g.sign_with_recid(d, z, lambda order, se, val: k0))
        got2 = drv.call(lambda: g.sign(d, z, lambda order, se, val: k0)) if (k0 + z) % 3 == 0 or rec["tries"] else (got if isinstance(got, str) else got[:2])
        cnt += 2
        classes.add((ck, "sign", rec["tries"] > 0, rec["recid"], z >= n))
        if rec["tries"] == 0:
            if got != want or got2 != want[:2]:
                key = "C01|sign|first_nonce_usable|%s" % ("got=" + got if isinstance(got, str) else
                                                         "recid" if got[:2] == want[:2] and got2 == want[:2] else "r_s")
                if len(fails) < 4:
                    fails.append((key, "sign_with_recid(d=%d, z=%d, k=%d) on %s: spec %s, pycoin %s / sign %s" % (d, z, k0, ck, want, got, got2),
                                  {"curve": ck, "d": d, "z": z, "k": k0, "expected": want, "got": got}))
        else:
            # the retry path is not prescribed: any signature that verifies is acceptable
            if isinstance(got, str) or isinstance(got2, str):
                if len(fails) < 4:
                    fails.append(("C01|sign|retry|kused=%s|got=%s" % ("wraps" if rec["kused"] < k0 else "k+1", got),
                                  "sign_with_recid(d=%d, z=%d, first nonce %d gives r or s = 0) on %s raised %s; a valid signature exists (spec: %s)" % (d, z, k0, ck, got, want),
                                  {"curve": ck, "d": d, "z": z, "k": k0, "spec": want, "got": got}))
            elif tuple(got[:2]) not in {tuple(x) for x in rec["valid"]} or tuple(got2) not in {tuple(x) for x in rec["valid"]}:
                if len(fails) < 4:
                    fails.append(("C01|sign|retry|returned_invalid_signature",
                                  "sign_with_recid(d=%d, z=%d, first nonce %d gives r or s = 0) on %s returned %s, which does not verify" % (d, z, k0, ck, got),
                                  {"curve": ck, "d": d, "z": z, "k": k0, "valid": rec["valid"], "got": got}))
    return cnt, classes, fails, queue


def _rec_unit(args):
    ck, z, r, rows = args
    p, a, b, G, n = CURVES[ck]
    g = _gen(ck)
    fails, cnt, classes = [], 0, set()
    for si, row in enumerate(rows):
        s = si + 1
        may = {tuple(q) for q in row["may"]}
        for par, must in ((None, row["must0"] + row["must1"]), (0, row["must0"]), (1, row["must1"])):
            must = {tuple(q) for q in must}
            got = drv.call(lambda: g.possible_public_pairs_for_signature(z, (r, s), par))
            cnt += 1
            cls = "r>=p" if r >= p else "r<p"
            classes.add((ck, "rec", cls, par, len(must), len(may)))
            if isinstance(got, str):
                bad = "got=" + got
            else:
                gs = {tuple(q) for q in drv.pts(got, p)}
                bad = ("missing_signer_key" if not must <= gs else "returned_nonverifying_key" if not gs <= may else None)
            if bad and len(fails) < 4:
                fails.append(("C01|recover|%s|parity=%s|%s" % (cls, "any" if par is None else "given", bad),
                              "possible_public_pairs_for_signature(z=%d, (r=%d, s=%d), parity=%s) on %s: must include %s, may only return %s, got %s" % (
                                  z, r, s, par, ck, sorted(must), sorted(may), got if isinstance(got, str) else drv.pts(got, p)),
                              {"curve": ck, "z": z, "r": r, "s": s, "parity": par, "must": sorted(must), "may": sorted(may)}))
    return cnt, classes, fails


def _rec_out_unit(args):
    """recovery from (r, s) with s outside [1, n-1]: only keys under which the signature verifies (none) may come back;
    refusing with an exception returns no key either"""
    ck, z, r, outs = args
    p, a, b, G, n = CURVES[ck]
    g = _gen(ck)
    fails, cnt, classes = [], 0, set()
    for s, may in outs:
        may = {tuple(q) for q in may}
        for par in (None, 0, 1):
            got = drv.call(lambda: g.possible_public_pairs_for_signature(z, (r, s), par))
            cnt += 1
            classes.add((ck, "rec-out", "s<1" if s < 1 else "s>=n", par))
            if isinstance(got, str):
                continue
            gs = {tuple(q) for q in drv.pts(got, p)}
            key = "C01|recover|%s|parity=%s|returned_nonverifying_key" % ("s<1" if s < 1 else "s>=n", "any" if par is None else "given")
            if not gs <= may and key not in {f[0] for f in fails}:
                fails.append((key,
                              "possible_public_pairs_for_signature(z=%d, (r=%d, s=%d), parity=%s) on %s: no key verifies a signature with s outside [1, n-1], got %s" % (
                                  z, r, s, par, ck, drv.pts(got, p)),
                              {"curve": ck, "z": z, "r": r, "s": s, "parity": par, "must": [], "may": sorted(may)}))
    return cnt, classes, fails


def _rfc_toy_unit(args):
    """default-nonce signing on the toy curves: nonce from the RFC6979 term, signature from the sign table"""
    rec, cks = args
    from pycoin.ecdsa.rfc6979 import deterministic_generate_k
    k, idx, _ = ecterms.nonce(rec)
    n = rec["q"][0]
    d = rec["x"][0]
    z = int.from_bytes(bytes(rec["h1"]), "big")
    fails, cnt = [], 0
    if k is None:
        return 0, set(), [("MACHINERY", "no candidate in range among %d for %s" % (len(rec["cands"]), rec["id"]), None)]
    got = drv.call(lambda: deterministic_generate_k(n, d, z))
    cnt += 1
    if got != k:
        fails.append(("C01|rfc6979|toy|candidate=%s|nonce" % ("first" if idx == 0 else "later"),
                      "deterministic_generate_k(n=%d, d=%d, z=%#x): RFC 6979 gives %d (candidate %d), pycoin %s" % (n, d, z, k, idx, got),
                      {"n": n, "d": d, "z": hex(z), "expected": k, "got": got}))
    for ck in cks:
        ent = _T[ck]["sign"].get((d, z % n, k))
        if ent is None:
            continue
        g = _gen(ck)
        sg = drv.call(lambda: g.sign_with_recid(d, z))
        cnt += 1
        want = (ent["r"], ent["s"], ent["recid"])
        if ent["tries"] == 0 and sg != want:
            fails.append(("C01|sign|default_nonce|toy|%s" % ("got=" + sg if isinstance(sg, str) else "r_s_recid"),
                          "sign_with_recid(d=%d, z=%#x) on %s: RFC 6979 nonce %d gives %s, pycoin %s" % (d, z, ck, k, want, sg),
                          {"curve": ck, "d": d, "z": hex(z), "k": k, "expected": want, "got": sg}))
        elif ent["tries"] > 0 and not isinstance(sg, str) and tuple(sg[:2]) not in {tuple(x) for x in ent["valid"]}:
            fails.append(("C01|sign|retry|returned_invalid_signature",
                          "sign_with_recid(d=%d, z=%#x) on %s with the default nonce %d (r or s = 0) returned %s, which does not verify" % (d, z, ck, k, sg),
                          {"curve": ck, "d": d, "z": hex(z), "k": k, "got": sg}))
        elif ent["tries"] > 0 and isinstance(sg, str):
            fails.append(("C01|sign|retry|kused=%s|got=%s" % ("wraps" if ent["kused"] < k else "k+1", sg),
                          "sign_with_recid(d=%d, z=%#x) on %s with the default nonce %d (r or s = 0) raised %s" % (d, z, ck, k, sg),
                          {"curve": ck, "d": d, "z": hex(z), "k": k, "got": sg}))
    return cnt, {("rfc", n, idx, z % n == 0)}, fails


def _ref_unit(ck):
    """vf.drv.ecdsa.ref_sig / ref_verify against TLC's tables (they stand in for TLC on the 256-bit curves)"""
    p, a, b, G, n = CURVES[ck]
    ref = RefCurve(p, a, b, G, n)
    bad = 0
    for (d, zm, k0), rec in _T[ck]["sign"].items():
        if rec["tries"] == 0:
            sg = drv.ref_sig(ref, d, rec["z"], k0)
            bad += (sg["r"], sg["s"], sg["recid"]) != (rec["r"], rec["s"], rec["recid"])
    for row in _T[ck]["ver"][:60]:
        acc = {tuple(x) for x in row["acc"]}
        for r in range(0, n + 1):
            for s in range(0, n + 1):
                bad += drv.ref_verify(ref, row["Q"], row["z"], r, s) != ((r, s) in acc)
    return bad


# ----------------------------------------------------------------------------- stages

def _load_tables(ck, recs):
    n = CURVES[ck][4]
    t = {"sign": {}, "ver": [], "rec": [], "signrecs": {}}
    for r in recs:
        if r["k"] == "sign":
            key = (r["d"], r["z"] % n, r["k0"])
            old = t["sign"].get(key)
            if old is not None and (old["r"], old["s"], old["recid"], old["tries"]) != (r["r"], r["s"], r["recid"], r["tries"]):
                raise MachineryError("sign table depends on z beyond z mod n: %s vs %s" % (old, r))
            t["sign"][key] = r
            t["signrecs"].setdefault(r["d"], []).append(r)
        elif r["k"] == "ver":
            t["ver"].append(r)
        elif r["k"] == "rec":
            t["rec"].append(r)
    if not t["sign"] or not t["ver"] or not t["rec"]:
        raise MachineryError("incomplete ECDSA table export for " + ck)
    return t


def _report(ctx, kind, res_iter):
    total = 0
    for out in res_iter:
        cnt, classes, fails = out[0], out[1], out[2]
        total += cnt
        for c in classes:
            ctx.case(c, 0)
        for key, what, detail in fails:
            if key == "MACHINERY":
                raise MachineryError(what)
            ctx.fail(key, what, detail)
    ctx.case(None, total)
    ctx.replayed += total
    ctx.action("replay." + kind, total)
    return total


def _case_file(obj):
    fd, path = tempfile.mkstemp(prefix="vf-c01-", suffix=".json")
    with os.fdopen(fd, "w") as f:
        json.dump(obj, f)
    return path


def _prod_params():
    from pycoin.ecdsa import secp256k1 as k1, secp256r1 as r1
    return {"secp256k1": (k1._p, k1._a, k1._b, (k1._Gx, k1._Gy), k1._r),
            "secp256r1": (r1._p, r1._a, r1._b, (r1._Gx, r1._Gy), r1._r)}


def _validate_many(ctx, jobs):
    """jobs: [(cfg, traces)]; the TLC runs go concurrently (each is single-threaded: -workers 1).
    Returns per job (rejected indices, {index: number of events matched})"""
    paths = [_case_file(tr) for _, tr in jobs]
    try:
        rs = tlc_many(ctx, [dict(module="Trace_ECDSA", cfg=cfg, workers=1, env={"TRACE_FILE": p}, count=False, timeout=3000)
                            for (cfg, _), p in zip(jobs, paths)], threads=6)
    finally:
        for p in paths:
            os.unlink(p)
    out = []
    for (cfg, tr), r in zip(jobs, rs):
        rej = [x for x in r.records if x.get("k") == "rejected"]
        if len(rej) != 1 or rej[0]["n"] != len(tr):
            raise MachineryError("trace run %s gave no verdict: %s" % (cfg, r.raw_tail[-5:]))
        out.append((sorted(i - 1 for i in rej[0]["ids"]), {i: m for i, m in enumerate(rej[0]["matched"]) if m >= 0}))
    return out


def _validate_traces(ctx, cfg, traces):
    (rej, matched), = _validate_many(ctx, [(cfg, traces)])
    _validate_traces.matched = matched
    return rej


def run(ctx):
    q = ctx.quick
    rnd = random.Random(ctx.seed * 65537 + 1)
    ctx.rule = ("distinct_nontrivial = distinct (curve, table, class): verify rows by (z = 0 mod n, z >= n, number of accepted pairs); "
                "sign cells by (retry taken, recovery id, z >= n); recover cells by (r >= p, parity given, sizes of the must/may key sets); "
                "RFC 6979 runs by (order, index of the accepted candidate, z = 0 mod n); production cases by (curve, backend, class of d, class of z)")
    ctx.assumptions += [
        "TLC/SANY, CPython hmac/hashlib (HMAC is an uninterpreted function in RFC6979.tla; its values come from hmac)",
        "256-bit EC arithmetic cannot enter TLC (L1): on secp256k1/secp256r1 the expected (r, s) come from vf.drv.ecdsa.ref_sig over vf.refec, "
        "both replayed against TLC's tables on the toy curves first",
        "'rejects any other key or hash' is exact on the toy curves (TLC's verify table); on 256-bit curves the other key/hash are d+1, z+1 "
        "and a chance collision (probability about 2^-255) is ignored",
        "libsecp256k1 is not installed in this sandbox: that backend (which overrides sign and verify) is not exercised (L3)",
        "when the first RFC 6979 nonce gives r = 0 or s = 0 the property prescribes nothing but a valid signature; any verifying (r, s) is accepted",
        "recovery results may contain the point at infinity (the 'key' of d = 0), for which the verification equation holds",
    ]
    params = _prod_params()
    vecs = drv.rfc6979_vectors(REPO)
    if len(vecs) < 12:
        raise MachineryError("expected the 12 RFC 6979 vectors of tests/ecdsa/rfc6979_test.py, found %d" % len(vecs))

    toy_tab = ["p11_q", "p23_q", "p43_q", "p83_q"] if q else ["p11", "p23", "p43", "p67", "p79", "p83", "p103"]
    ck_of = lambda c: c.split("_")[0]
    toy_n = sorted({CURVES[ck_of(c)][4] for c in toy_tab})

    # ---- 1+4a. RFC 6979 terms: ground truth first, then toy and production cases (one TLC run)
    recs_toy, recs_prod = [], []
    if _only(ctx, "rfc") or _only(ctx, "vectors"):
        nrnd = 1 if q else 4
        given = {"vec": [drv.vector_case(v) for v in vecs], "toy": toy_n,
                 "prod": [{"q": list(params[c][4].to_bytes(32, "big")), "rnd": [list(rnd.randbytes(32)) for _ in range(nrnd)]}
                          for c in ("secp256k1", "secp256r1")]}
        path = _case_file(given)
        try:
            r = ctx.tlc("MC_RFC6979", "MC_RFC6979", workers=8, env={"CASE_FILE": path}, timeout=2400, coverage=not q,
                        require_actions=() if q else ("StepD", "StepE", "StepF", "StepG", "GenT", "GenDone", "Candidate", "RejectK", "RejectV"))
        finally:
            os.unlink(path)
        seen = 0
        later = 0
        for rec in r.records:
            if rec.get("k") != "rfc":
                continue
            cls = rec["id"]["cls"]
            if cls == "vec":
                k, idx, _ = ecterms.nonce(rec)
                want = vecs[rec["id"]["a"] - 1]["k"]
                if k != want:
                    raise MachineryError("RFC6979.tla disagrees with RFC 6979 test vector %d: %s vs %#x" % (rec["id"]["a"], k and hex(k), want))
                seen += 1
                later += idx > 0
            elif cls == "toy":
                recs_toy.append(rec)
            else:
                recs_prod.append(rec)
        if seen != len(vecs):
            raise MachineryError("only %d of %d vectors came back from TLC" % (seen, len(vecs)))
        ctx.selftest("rfc6979_spec_matches_%d_rfc_vectors_term_mode" % seen, True)
        ctx.extra["rfc_vectors_needing_a_later_candidate_or_two_T_blocks"] = later
        # oracle mode on the SHA-256 vectors (validates BigBytes bits2int / range test against ground truth)
        trs = []
        for rec in r.records:
            if rec.get("k") == "rfc" and rec["id"]["cls"] == "vec" and rec["hlen"] == 32:
                k, idx, oracle = ecterms.nonce(rec)
                ro = len(rec["q"])
                one = [0] * (ro - 1) + [1]
                trs.append([{"op": "sign", "q": rec["q"], "x": rec["x"], "h1": rec["h1"], "oracle": oracle,
                             "k": list(k.to_bytes(ro, "big")), "rb": one, "sb": one}])
        bad = copy.deepcopy(trs[0])
        bad[0]["k"][-1] ^= 1
        rej = _validate_traces(ctx, "Trace_ECDSA_prod", trs + [bad])
        if rej != [len(trs)]:
            raise MachineryError("RFC6979.tla in oracle mode disagrees with the RFC vectors: rejected %s of %d (+1 corrupted)" % (rej, len(trs)))
        ctx.selftest("rfc6979_spec_matches_rfc_vectors_oracle_mode_and_rejects_wrong_nonce", True)

    # ---- 2. model
    if _only(ctx, "model"):
        cfgs = ["p11", "p23_q", "p43_q"] if q else ["p11", "p23", "p43", "p67", "p79", "p83", "p103"]
        tlc_many(ctx, [dict(module="MC_ECDSA", cfg="MC_ECDSA_" + c, workers=4 if q else 3, timeout=3000) for c in cfgs], threads=4 if q else 7)

    # ---- 3. tables
    need_tab = any(_only(ctx, s) for s in ("tables", "rfc", "selftest"))
    if need_tab:
        rs = tlc_many(ctx, [dict(module="MC_ECDSAReplay", cfg="MC_ECDSAReplay_" + c, workers=4 if q else 8, timeout=3000) for c in toy_tab],
                      threads=4 if q else 2)
        for c, r in zip(toy_tab, rs):
            _T[ck_of(c)] = _load_tables(ck_of(c), r.records)
        badref = sum(pmap(_ref_unit, [ck_of(c) for c in toy_tab], chunk=1))
        if badref:
            raise MachineryError("reference ECDSA (vf.drv.ecdsa.ref_sig/ref_verify) disagrees with TLC's tables in %d cells" % badref)
        ctx.selftest("reference_ecdsa_matches_ECDSA_tla_tables", True)
    queue = []
    if _only(ctx, "tables"):
        units = []
        for c in toy_tab:
            ck = ck_of(c)
            units += [("ver", (ck, row["Q"], row["z"], row["acc"], q)) for row in _T[ck]["ver"]]
            units += [("sign", (ck, d, recs)) for d, recs in sorted(_T[ck]["signrecs"].items())]
            units += [("rec", (ck, row["z"], row["r"], row["rows"])) for row in _T[ck]["rec"]]
            units += [("recout", (ck, row["z"], row["r"], row["outs"])) for row in _T[ck]["rec"]]
        random.Random(ctx.seed).shuffle(units)
        res = pmap(_dispatch, units, chunk=4)
        for kind in ("ver", "sign", "rec", "recout"):
            sel = [o for (k, _), o in zip(units, res) if k == kind]
            tot = _report(ctx, kind, sel)
            ctx.log("toy %s table: %d calls on pycoin (%d rows)" % (kind, tot, len(sel)))
            if kind == "sign":
                for o in sel:
                    queue += o[3]
        ck = ck_of(toy_tab[1])
        ctx.sample({"verify_row": {"curve": ck, "Q": _T[ck]["ver"][0]["Q"], "z": _T[ck]["ver"][0]["z"], "accepted_r_s": _T[ck]["ver"][0]["acc"][:8]}})
        ctx.sample({"sign_cell": {"curve": ck, **{k: v for k, v in next(iter(_T[ck]["sign"].values())).items() if k != "k"}}})

    # ---- 4. default nonce
    if _only(ctx, "rfc"):
        by_n = {}
        for c in toy_tab:
            by_n.setdefault(CURVES[ck_of(c)][4], []).append(ck_of(c))
        res = pmap(_rfc_toy_unit, [(rec, by_n[rec["q"][0]]) for rec in recs_toy], chunk=16)
        tot = _report(ctx, "rfc_toy", res)
        ctx.log("RFC 6979 on toy orders %s: %d term records, %d calls on pycoin" % (toy_n, len(recs_toy), tot))
        ctx.sample({"rfc6979_term": {"id": recs_toy[0]["id"], "defs": recs_toy[0]["defs"][:2], "candidates": recs_toy[0]["cands"][:1]}})
        _production(ctx, params, recs_prod)

    # ---- 4b. the DER wrapper: Key.verify on encodings prepared and judged by MC_ECDSADer / DerSig.tla
    if _only(ctx, "der"):
        _der_stage(ctx, params)

    # ---- 5. traces
    if _only(ctx, "traces"):
        _traces(ctx, params, queue)

    # ---- 6. replay self-test
    if _only(ctx, "selftest") or _only(ctx, "tables"):
        ck = ck_of(toy_tab[0])
        row = copy.deepcopy(_T[ck]["ver"][0])
        victim = row["acc"].pop(0)
        cnt, cl, fails = _ver_unit((ck, row["Q"], row["z"], row["acc"], True))
        ok1 = any("expected=False|got=True" in k for k, _, _ in fails)
        d0, recs0 = next(iter(sorted(_T[ck]["signrecs"].items())))
        r0 = copy.deepcopy([x for x in recs0 if x["tries"] == 0][:1])
        r0[0]["s"] = (r0[0]["s"] % (CURVES[ck][4] - 1)) + 1
        ok2 = bool(_sign_unit((ck, d0, r0))[2])
        ctx.selftest("replay_rejects_corrupted_expectation", ok1 and ok2)
    ctx.exhaustive = False
    ctx.extra["exhaustive_within"] = "the (d, z, k) / (Q, z, r, s) / (z, r, s) grids of the toy curves named in tlc_runs (see spec/MC_ECDSAReplay_*.cfg); boundary classes and seeded samples on secp256k1/secp256r1 (L1)"


def _dispatch(u):
    kind, args = u
    return {"ver": _ver_unit, "sign": _sign_unit, "rec": _rec_unit, "recout": _rec_out_unit}[kind](args)


# ----------------------------------------------------------------------------- production curves

def _production(ctx, params, recs_prod):
    if not recs_prod:
        raise MachineryError("no production-order RFC 6979 records")
    order_of = {params[c][4]: c for c in params}
    cases = {c: [] for c in params}
    for rec in recs_prod:
        qv = int.from_bytes(bytes(rec["q"]), "big")
        k, idx, oracle = ecterms.nonce(rec)
        if k is None:
            raise MachineryError("no RFC 6979 candidate in range for %s" % rec["id"])
        cases[order_of[qv]].append({"d": int.from_bytes(bytes(rec["x"]), "big"), "z": int.from_bytes(bytes(rec["h1"]), "big"),
                                    "k": k, "idx": idx, "oracle": oracle, "dn": rec["id"]["dn"], "zn": rec["id"]["zn"]})
    backends = [("secp256k1", "python"), ("secp256k1", ""), ("secp256r1", "python"), ("secp256r1", "")]
    jobs = []
    for name, native in backends:
        cs = cases[name]
        step = (6 if ctx.quick else 4) if native == "python" else 40
        for off in range(0, len(cs), step):
            ch = cs[off:off + step]
            # quick tier, pure Python (verify ~0.1 s each): tamper classes / recovery / Key API for every third class only
            jobs.append((name, native, ch, {"curve": name, "key_api": True,
                                            "cases": [{"d": hex(c["d"]), "z": hex(c["z"]),
                                                       "full": not (ctx.quick and native == "python") or (off + i) % 3 == 0}
                                                      for i, c in enumerate(ch)]}))
    results = _run_jobs(jobs)
    total = 0
    seen_backend = {}
    for (name, native, ch, _), res in results:
        be = res["backend"]
        seen_backend[(name, native)] = be
        if native == "python" and be != "python":
            raise MachineryError("PYCOIN_NATIVE=python did not select the pure-Python backend")
        ref = RefCurve(*params[name])
        for c, o in zip(ch, res["out"]):
            total += _check_prod_case(ctx, name, be, ref, c, o)
    ctx.case(None, total)
    ctx.replayed += total
    ctx.action("replay.production", total)
    ctx.extra["backends_exercised"] = sorted("%s:%s" % (k[0], v) for k, v in seen_backend.items())
    if "openssl" not in seen_backend.values():
        ctx.assumptions.append("libcrypto not loadable here: the OpenSSL backend was NOT exercised")
    ctx.log("production curves: %d (d, z) classes x %s: %d comparisons" % (
        sum(len(v) for v in cases.values()), ctx.extra["backends_exercised"], total))


def _run_jobs(jobs):
    running, results = [], []
    it = iter(jobs)
    pending = True
    while pending or running:
        while pending and len(running) < NPROC:
            try:
                j = next(it)
            except StopIteration:
                pending = False
                break
            running.append((j, ecdrv.spawn(j[3], j[1], REPO, module="vf.drv.ecdsa")))
        j, proc = running.pop(0)
        results.append((j, ecdrv.finish(proc, j[3])))
    return results


_RVC = {}


def _ref_verify_cached(ref, Q, z, r, s):
    key = (ref.p, tuple(Q), z, r, s)
    if key not in _RVC:
        _RVC[key] = drv.ref_verify(ref, Q, z, r, s)
    return _RVC[key]


def _hx(v):
    return int(v, 16) if isinstance(v, str) and not v.startswith("exc:") else v


def _check_prod_case(ctx, name, be, ref, c, o):
    n = ref.n
    d, z, k = c["d"], c["z"], c["k"]
    lab = "%s/%s" % (name, be)
    cls = "d=%s|z=%s" % (c["dn"], c["zn"])
    ctx.case(("prod", name, be, c["dn"], c["zn"]), 0)
    cnt = 0
    det = {"curve": name, "backend": be, "d": hex(d), "z": hex(z), "rfc6979_nonce": hex(k)}

    def fail(key, what):
        ctx.fail(key, what + " [%s d=%#x z=%#x]" % (lab, d, z), dict(det, observed={kk: vv for kk, vv in o.items() if kk != "oracle"}))
    # nonce
    cnt += 1
    if _hx(o["k"]) != k:
        fail("C01|rfc6979|production|z=%s|nonce" % c["zn"], "deterministic_generate_k differs from the RFC 6979 term value %#x: %s" % (k, o["k"]))
    if o["oracle"] != c["oracle"][:len(o["oracle"])] or len(o["oracle"]) < 4 + 1 + 3 * c["idx"]:
        fail("C01|rfc6979|%s|hmac_calls" % lab, "pycoin's HMAC invocations are not the ones RFC6979.tla prescribes")
    # signature
    sg = drv.ref_sig(ref, d, z, k)
    if not (sg["r"] and sg["s"]):
        return cnt      # first nonce unusable: never on these curves
    want = (sg["r"], sg["s"])
    flipped = (sg["r"], n - sg["s"])
    for fld in ("sig", "sig_genk"):
        cnt += 1
        got = o[fld] if isinstance(o[fld], str) else tuple(_hx(v) for v in o[fld])
        if got != want and not (be != "python" and got == flipped):
            fail("C01|sign|%s|%s" % (lab, "got=" + got if isinstance(got, str) else "r_s"),
                 "%s is not the RFC 6979 signature (r=%#x, s=%#x): %s" % (fld, want[0], want[1], o[fld]))
    cnt += 1
    got = o["sig_recid"] if isinstance(o["sig_recid"], str) else tuple(_hx(v) for v in o["sig_recid"])
    if got != want + (sg["recid"],) and not (be != "python" and got == flipped + (sg["recid"] ^ 1,)):
        fail("C01|sign_with_recid|%s|%s" % (lab, "got=" + got if isinstance(got, str) else "r_s_recid"),
             "sign_with_recid is not (r, s, recid) of the RFC 6979 nonce: %s vs %s" % (o["sig_recid"], want + (sg["recid"],)))
    if [_hx(v) for v in o["k_used"]] != [k]:
        fail("C01|sign|%s|nonce_passed_to_gen_k" % lab, "sign(.., gen_k) called gen_k with other arguments: nonce %s" % o["k_used"])
    Q = ref.mul(d, ref.G)
    cnt += 1
    if tuple(_hx(v) for v in o["Q"]) != Q:
        fail("C01|pubkey|%s" % lab, "d*G differs from the reference")
    if "tamper" not in o:
        return cnt
    r, s = (_hx(v) for v in o["sig"])
    Qo = ref.mul((d % (n - 1)) + 1, ref.G)
    for (nm, Qq, zz, rr, ss, exp), (nm2, gotv) in zip(drv.tamper_classes(n, d, z, r, s, Q, Qo), o["tamper"]):
        cnt += 1
        if nm != nm2:
            raise MachineryError("tamper class lists out of step")
        # the verdict ECDSA.tla's Verify gives, through the reference validated against TLC's tables; the class list's
        # own expectation must agree except for chance relations between keys/hashes (e.g. z = 0 mod n makes -Q verify too)
        exact = _ref_verify_cached(ref, Qq, zz, rr, ss)
        if exact is not exp and nm not in ("other_key", "other_hash"):
            raise MachineryError("tamper class %s: ECDSA.tla gives %s" % (nm, exact))
        exp = exact
        if gotv is not exp:
            if nm == "sum_is_infinity":
                key = "C01|verify|sum_is_infinity|expected=False|got=%s" % gotv
            else:
                key = "C01|verify|%s|tamper=%s|expected=%s|got=%s" % (lab, nm, exp, gotv)
            fail(key, "verify with tamper class %s: expected %s, got %s" % (nm, exp, gotv))
    # recovery
    for fld, need in (("recover", True), ("recover_parity", sg["x"] < n)):
        cnt += 1
        rc = o.get(fld)
        if isinstance(rc, str) or rc is None:
            fail("C01|recover|%s|got=%s" % (lab, rc), "%s raised" % fld)
            continue
        keys = [tuple(_hx(v) for v in qq) for qq in rc]
        if need and sg["x"] < n and Q not in keys:
            fail("C01|recover|%s|missing_signer_key" % lab, "%s does not contain the signer's key" % fld)
        if any(not _ref_verify_cached(ref, kk, z, r, s) for kk in keys):
            fail("C01|recover|%s|returned_nonverifying_key" % lab, "%s returned a key under which the signature does not verify" % fld)
    # Key.sign / Key.verify (DER wrapper), secp256k1 only
    if "der" in o:
        cnt += 1
        if isinstance(o["der"], str) and o["der"].startswith("exc:"):
            fail("C01|Key.sign|%s|got=%s" % (lab, o["der"]), "Key.sign raised")
        else:
            if tuple(_hx(v) for v in o["der_rs"]) != (r, s):
                fail("C01|Key.sign|%s|der" % lab, "Key.sign's DER does not encode generator.sign's (r, s)")
            for fld, exp in (("key_verify", True), ("key_verify_other_hash", False), ("key_verify_s+n", False),
                             ("key_verify_r=0", False), ("key_verify_sum_is_infinity", False)):
                if fld in o:
                    cnt += 1
                    if o[fld] is not exp:
                        key = ("C01|Key.verify|sum_is_infinity|expected=False|got=%s" % o[fld]) if fld.endswith("infinity") else \
                              "C01|Key.verify|%s|%s|expected=%s|got=%s" % (lab, fld, exp, o[fld])
                        fail(key, "Key.verify %s: expected %s, got %s" % (fld, exp, o[fld]))
    return cnt


# ----------------------------------------------------------------------------- DER wrapper (Key.verify)

def _der_cases(params, want_per_class):
    """valid signatures on each production curve, classified by the top bits of r and s: nonces k = 1, 2, .. fix r,
    hashes z = 1, 2, .. vary s; all computed with the reference of ECDSA.tla's SigOf and checked with ref_verify"""
    out = {}
    for name, pr in params.items():
        ref = RefCurve(*pr)
        n = ref.n
        d = (0xC01D00D << 200) % n + 3
        Q = ref.mul(d, ref.G)
        found = {}
        k = 0
        while len(found) < 4 * want_per_class and k < 60:
            k += 1
            for z in range(1, 9):
                sg = drv.ref_sig(ref, d, z, k)
                if not (sg["r"] and sg["s"]):
                    continue
                cls = (sg["r"] >> 255, sg["s"] >> 255)
                if sum(1 for kk in found if kk[0] == cls) < want_per_class and (cls, k, z) not in found:
                    if not drv.ref_verify(ref, Q, z, sg["r"], sg["s"]):
                        raise MachineryError("reference signature does not verify")
                    found[(cls, k, z)] = {"d": d, "Q": Q, "z": z, "r": sg["r"], "s": sg["s"], "cls": cls}
        if {kk[0] for kk in found} != {(0, 0), (0, 1), (1, 0), (1, 1)}:
            raise MachineryError("could not find signatures with every top-bit pattern on " + name)
        out[name] = [found[kk] for kk in sorted(found)]
    return out


def _der_stage(ctx, params):
    cases = _der_cases(params, 1 if ctx.quick else 3)
    flat = [(name, cs) for name in sorted(cases) for cs in cases[name]]
    path = _case_file([{"r": list(cs["r"].to_bytes(32, "big")), "s": list(cs["s"].to_bytes(32, "big"))} for _, cs in flat])
    try:
        r = ctx.tlc("MC_ECDSADer", "MC_ECDSADer", workers=4, env={"CASE_FILE": path}, timeout=600)
    finally:
        os.unlink(path)
    recs = {x["ci"]: x for x in r.records if x.get("k") == "der"}
    if len(recs) != len(flat):
        raise MachineryError("MC_ECDSADer printed %d of %d cases" % (len(recs), len(flat)))
    jobs = []
    for name in sorted(cases):
        idx = [i for i, (nm, _) in enumerate(flat) if nm == name]
        for native in ("python", ""):
            job_cases, blobs_of = [], []
            for i in idx:
                cs = flat[i][1]
                bl = sorted(recs[i + 1]["blobs"], key=lambda b: b["name"])
                blobs_of.append(bl)
                job_cases.append({"Q": [hex(cs["Q"][0]), hex(cs["Q"][1])], "z": hex(cs["z"]), "blobs": [bytes(b["blob"]).hex() for b in bl]})
            jobs.append((name, native, (idx, blobs_of), {"what": "der", "curve": name, "cases": job_cases}))
    total = 0
    for (name, native, (idx, blobs_of), _), res in _run_jobs(jobs):
        lab = "%s/%s" % (name, res["backend"])
        for i, bl, outs in zip(idx, blobs_of, res["out"]):
            cs = flat[i][1]
            for b, got in zip(bl, outs):
                total += 1
                ctx.case(("der", name, res["backend"], b["name"], cs["cls"]), 0)
                want = b["verdict"]
                if want == "other-value":
                    raise MachineryError("DER variant %s does not present the signature" % b["name"])
                ok = (got is True) if want == "true" else (got is False) if want == "false" else (got is True or got is False)
                if not ok:
                    cls = "negative_integer" if "negative" in b["dev"] else "unreadable" if want == "false" else "canonical" if want == "true" else "non_der"
                    ctx.fail("C01|Key.verify|der|%s|expected=%s|got=%s" % (cls, want, got),
                             "Key.verify(hash, DER blob) on %s, variant %s (deviations from DER: %s): the property demands %s, got %s; r=%#x s=%#x blob=%s" % (
                                 lab, b["name"], b["dev"], want, got, cs["r"], cs["s"], bytes(b["blob"]).hex()),
                             {"curve": name, "backend": res["backend"], "variant": b["name"], "dev": b["dev"], "expected": want, "got": got,
                              "Q": [hex(v) for v in cs["Q"]], "z": cs["z"], "r": hex(cs["r"]), "s": hex(cs["s"]), "blob": bytes(b["blob"]).hex()})
    ctx.case(None, total)
    ctx.replayed += total
    ctx.action("replay.der_wrapper", total)
    ctx.sample({"der_variant": {k: v for k, v in recs[1]["blobs"][0].items()}})
    ctx.log("Key.verify DER wrapper: %d signatures x DER variants on secp256k1/secp256r1 x python/openssl: %d calls" % (len(flat), total))


# ----------------------------------------------------------------------------- traces

def _record_toy_traces(ck, seed, count, nev):
    from pycoin.ecdsa.rfc6979 import deterministic_generate_k   # noqa: imported so that the recorder patches the loaded module
    cur = CURVES[ck]
    p, a, b, G, n = cur
    rnd = random.Random(seed)
    g = ecdrv.toy_generator(cur, rnd.randrange(n))
    qb = list(n.to_bytes((n.bit_length() + 7) // 8, "big"))
    traces = []
    for t in range(count):
        ev = []
        d = rnd.randrange(1, n)
        Q = g * d
        sig = None
        zb = None
        for e in range(nev):
            c = rnd.random()
            if sig is None or c < 0.35:
                zb = rnd.randbytes(32) if rnd.random() < 0.8 else rnd.randrange(1, 3 * n).to_bytes(32, "big")
                if rnd.random() < 0.3:
                    d = rnd.randrange(1, n)
                    Q = g * d
                z = int.from_bytes(zb, "big")
                with drv.HmacRecorder() as rec:
                    got = drv.call(lambda: g.sign_with_recid(d, z))
                evd = {"op": "sign", "q": qb, "x": list(d.to_bytes(len(qb), "big")), "h1": list(zb), "oracle": rec.calls}
                if isinstance(got, str):
                    evd.update(r=-1, s=-1, recid=-1, exc=got)
                    ev.append(evd)
                    break
                evd.update(r=got[0], s=got[1], recid=got[2])
                sig = got
                ev.append(evd)
            elif c < 0.75:
                r, s = sig[0], sig[1]
                m = rnd.random()
                Qv, zv = Q, zb
                if m < 0.25:
                    pass
                elif m < 0.4:
                    s = n - s
                elif m < 0.55:
                    r, s = rnd.choice([(r + n, s), (r, s + n), (0, s), (r, 0), (n, s), (r, n), (-r, s), (s, r), (r % (n - 1) + 1, s), (r, s % (n - 1) + 1)])
                elif m < 0.7:
                    zv = rnd.randbytes(32)
                elif m < 0.85:
                    Qv = g * rnd.randrange(1, n)
                else:
                    r, s = rnd.randrange(1, n), rnd.randrange(1, n)
                got = drv.call(lambda: g.verify(Qv, int.from_bytes(zv, "big"), (r, s)))
                evd = {"op": "verify", "Q": ecdrv.proj(Qv, p), "h1": list(zv), "r": r, "s": s, "res": got}
                if isinstance(got, str):
                    evd["res"] = False
                    evd["op"] = "verify_raised"      # no action of Trace_ECDSA matches: the trace is rejected here
                    evd["exc"] = got
                    evd["sum_is_infinity"] = True
                    ev.append(evd)
                    break
                ev.append(evd)
            else:
                r, s = (sig[0], sig[1]) if rnd.random() < 0.6 else (rnd.randrange(1, n), rnd.randrange(1, n))
                par = rnd.choice((2, 0, 1))
                got = drv.call(lambda: g.possible_public_pairs_for_signature(int.from_bytes(zb, "big"), (r, s), None if par == 2 else par))
                evd = {"op": "recover", "h1": list(zb), "r": r, "s": s, "par": par, "res": drv.pts(got, p)}
                if isinstance(got, str):
                    evd["res"] = [[-1, -1]]
                    evd["exc"] = got
                    ev.append(evd)
                    break
                ev.append(evd)
        traces.append(ev)
    return traces


def _rec_toy(args):
    ck, seed, count, nev = args
    return ck, _record_toy_traces(ck, seed, count, nev)


def _record_prod_traces(params, seed, count, nev):
    from pycoin.ecdsa.rfc6979 import deterministic_generate_k
    rnd = random.Random(seed)
    traces, meta = [], []
    for t in range(count):
        name = ("secp256k1", "secp256r1")[t % 2]
        g = ecdrv.production_generator(name)
        n = g.order()
        qb = list(n.to_bytes(32, "big"))
        pool = []
        ev, mt = [], []
        for e in range(nev):
            if pool and rnd.random() < 0.2:
                d, z = rnd.choice(pool)          # the same (key, hash) again: the same nonce is required, not forbidden
            else:
                d = rnd.randrange(1, n) if rnd.random() < 0.8 else rnd.choice((1, 2, n - 1, n - 2))
                z = int.from_bytes(rnd.randbytes(32), "big") if rnd.random() < 0.8 else rnd.choice((1, n - 1, n, n + 1, (1 << 256) - 1))
                if pool and rnd.random() < 0.3:
                    d = pool[-1][0]              # same key, other hash
                pool.append((d, z))
            used = []

            def gen_k(order, se, val):
                k = deterministic_generate_k(order, se, val)
                used.append(k)
                return k
            with drv.HmacRecorder() as rec:
                got = drv.call(lambda: g.sign(d, z, gen_k))
            plain = drv.call(lambda: g.sign(d, z))
            if isinstance(got, str) or not used:
                ev.append({"op": "sign", "q": qb, "x": list(d.to_bytes(32, "big")), "h1": list(z.to_bytes(32, "big")), "oracle": rec.calls,
                           "k": [0] * 32, "rb": [0] * 32, "sb": [0] * 32})
                mt.append({"curve": name, "d": d, "z": z, "k": None, "sig": got, "plain": plain})
                break
            ev.append({"op": "sign", "q": qb, "x": list(d.to_bytes(32, "big")), "h1": list(z.to_bytes(32, "big")), "oracle": rec.calls,
                       "k": list(used[0].to_bytes(32, "big")), "rb": list(got[0].to_bytes(32, "big")), "sb": list(got[1].to_bytes(32, "big"))})
            mt.append({"curve": name, "d": d, "z": z, "k": used[0], "sig": got, "plain": plain})
        traces.append(ev)
        meta.append(mt)
    return traces, meta


def _strip(traces):
    keep = ("op", "q", "x", "h1", "oracle", "r", "s", "recid", "k", "rb", "sb", "Q", "res", "par")
    return [[{k: v for k, v in e.items() if k in keep} for e in tr] for tr in traces]


def _traces(ctx, params, queue):
    q = ctx.quick
    plan = [("p251a", 60, 12), ("p251b", 60, 12)] if q else [("p251a", 600, 12), ("p251b", 600, 12), ("p1019", 150, 12)]
    first = None
    recorded = pmap(_rec_toy, [(ck, ctx.seed * 7919 + cnt + len(ck) + 1000 * part, min(200, cnt - 200 * part), nev)
                               for ck, cnt, nev in plan for part in range((cnt + 199) // 200)], chunk=1)
    verdicts = _validate_many(ctx, [("Trace_ECDSA_" + ck, _strip(tr)) for ck, tr in recorded])
    for (ck, traces), (rej, matched) in zip(recorded, verdicts):
        _validate_traces.matched = matched
        ctx.traces += len(traces) - len(rej)
        nevs = sum(len(t) for t in traces)
        ctx.case(None, nevs)
        ctx.action("trace.toy_events", nevs)
        if first is None:
            first = (ck, traces)
            e0 = dict(traces[0][0])
            e0["oracle"] = e0["oracle"][:1]
            ctx.sample({"trace_event": {"curve": ck, "event": e0}})
        p, a_, b_, G_, n = CURVES[ck]
        ref = RefCurve(p, a_, b_, G_, n)
        for i in rej:
            m = _validate_traces.matched.get(i, 0)
            last = traces[i][min(m, len(traces[i]) - 1)]          # the first event TLC could not match
            if last.get("exc") and last["op"] == "verify_raised":
                z = int.from_bytes(bytes(last["h1"]), "big")
                cls = "sum_is_infinity" if drv.ref_sum_is_infinity(ref, last["Q"], z, last["r"], last["s"]) else "in_range"
                key = "C01|verify|%s|expected=False|got=%s" % (cls, last["exc"])
            elif last.get("exc") and last["op"] == "sign":
                key = "C01|sign|retry|kused=wraps|got=%s" % last["exc"]
            elif last.get("exc"):
                key = "C01|trace|%s|got=%s" % (last["op"], last["exc"])
            elif last["op"] == "recover":
                z = int.from_bytes(bytes(last["h1"]), "big")
                nonver = any(not q or not drv.ref_verify(ref, q, z, last["r"], last["s"]) for q in last["res"] if q != [])
                key = "C01|recover|%s|parity=%s|%s" % ("r>=p" if last["r"] >= p else "r<p", "any" if last["par"] == 2 else "given",
                                                      "returned_nonverifying_key" if nonver else "missing_signer_key")
            elif last["op"] == "verify":
                key = "C01|verify|trace|got=%s" % last["res"]
            else:
                key = "C01|sign|trace|default_nonce|r_s_recid"
            ctx.fail(key, "recorded run on curve %s is not a behaviour of ECDSA.tla/RFC6979.tla; event %d is the first TLC cannot match: %s" % (
                ck, m, {k: v for k, v in last.items() if k != "oracle"}), {"curve": ck, "event_index": m, "trace": _strip([traces[i]])[0]})
        ctx.log("traces %s: %d recorded (%d events), %d rejected by TLC" % (ck, len(traces), nevs, len(rej)))
    # production curves
    cnt, nev = (16, 6) if q else (160, 8)
    traces, meta = _record_prod_traces(params, ctx.seed * 104729 + 3, cnt, nev)
    rej = _validate_traces(ctx, "Trace_ECDSA_prod", traces)
    ctx.traces += len(traces) - len(rej)
    nevs = sum(len(t) for t in traces)
    ctx.case(None, nevs)
    ctx.action("trace.production_events", nevs)
    for i in rej:
        ctx.fail("C01|trace|production|rejected", "recorded signing run on %s is rejected by Trace_ECDSA (nonce is not the RFC 6979 nonce, "
                 "r or s out of range, or a nonce shared between different (key, hash) pairs)" % meta[i][0]["curve"],
                 {"events": [{k: (hex(v) if isinstance(v, int) else v) for k, v in m.items()} for m in meta[i]]})
    refs = {c: RefCurve(*params[c]) for c in params}
    for mt in meta:
        for m in mt:
            if m["k"] is None:
                ctx.fail("C01|sign|production|got=%s" % (m["sig"],), "sign raised on %s" % m["curve"], {k: str(v) for k, v in m.items()})
                continue
            sg = drv.ref_sig(refs[m["curve"]], m["d"], m["z"], m["k"])
            n = refs[m["curve"]].n
            ok = lambda got: got == (sg["r"], sg["s"]) or got == (sg["r"], n - sg["s"])
            if not ok(m["sig"]) or not ok(m["plain"]):
                ctx.fail("C01|sign|production-trace|r_s", "signature is not the one its logged nonce determines on %s" % m["curve"],
                         {k: (hex(v) if isinstance(v, int) else str(v)) for k, v in m.items()})
    ctx.log("traces production: %d recorded (%d sign events), %d rejected by TLC" % (len(traces), nevs, len(rej)))
    # binding self-test: corrupt one logged field of accepted traces
    ck, ttr = first
    good = [t for t in ttr if len(t) >= 6 and not t[-1].get("exc")]
    if len(good) >= 2:
        bad1 = copy.deepcopy(good[0])
        e = next(e for e in bad1 if e["op"] == "sign")
        e["s"] = e["s"] % (CURVES[ck][4] - 1) + 1
        bad2 = copy.deepcopy(good[1])
        e = next(e for e in bad2 if e["op"] == "sign")
        e["oracle"][2]["msg"][len(e["oracle"][2]["msg"]) // 2] ^= 1       # step f's separator/key/hash block
        rej = _validate_traces(ctx, "Trace_ECDSA_" + ck, _strip([good[0], bad1, good[1], bad2]))
        ok_toy = rej == [1, 3]
        gp = [t for t in traces if len(t) >= 2][:1]
        badp = copy.deepcopy(gp[0])
        badp[1]["k"] = badp[0]["k"]                    # a nonce reused for another (key, hash)
        if badp[1]["x"] == badp[0]["x"] and badp[1]["h1"] == badp[0]["h1"]:
            badp[1]["h1"][-1] ^= 1
        rej = _validate_traces(ctx, "Trace_ECDSA_prod", [gp[0], badp])
        ctx.selftest("trace_rejects_corrupted_field", ok_toy and rej == [1])


# ----------------------------------------------------------------------------- single-case replay

def replay(ctx, obj):
    """./check C01 --replay FILE: re-execute the recorded failing case on the current tree (toy-curve cases).
    The expected value is the one TLC printed when the case was recorded."""
    d = obj.get("detail") or {}
    print(json.dumps({k: v for k, v in obj.items() if k != "detail"}, indent=1))
    ck = d.get("curve")
    if ck in CURVES:
        g = _gen(ck)
        p = CURVES[ck][0]
        if "Q" in d and "expected" in d and "r" in d:
            got = drv.call(lambda: g.verify(tuple(d["Q"]), d["z"], (d["r"], d["s"])))
            print("verify re-executed: expected %s, now %s" % (d["expected"], got))
            if got is not d["expected"]:
                ctx.fail(obj["key"], obj["what"], d)
            return
        if "k" in d and "d" in d and isinstance(d.get("z"), int):
            k0 = d["k"]
            got = drv.call(lambda: g.sign_with_recid(d["d"], d["z"], lambda order, se, val: k0))
            want = d.get("expected", d.get("spec"))
            print("sign_with_recid re-executed: spec %s, now %s" % (want, got))
            if isinstance(got, str) or ("expected" in d and list(got) != list(want)):
                ctx.fail(obj["key"], obj["what"], d)
            return
        if "must" in d:
            got = drv.call(lambda: g.possible_public_pairs_for_signature(d["z"], (d["r"], d["s"]), d["parity"]))
            gs = got if isinstance(got, str) else sorted(tuple(x) for x in drv.pts(got, p))
            print("recover re-executed: must include %s, may only contain %s, now %s" % (d["must"], d["may"], gs))
            if isinstance(got, str) or not {tuple(x) for x in d["must"]} <= set(gs) or not set(gs) <= {tuple(x) for x in d["may"]}:
                ctx.fail(obj["key"], obj["what"], d)
            return
        if "trace" in d:
            rej = _validate_traces(ctx, "Trace_ECDSA_" + ck, [d["trace"]])
            print("the recorded trace is %s by Trace_ECDSA (this validates the stored log, it does not re-run pycoin)" % ("rejected" if rej else "accepted"))
            if rej:
                ctx.fail(obj["key"], obj["what"], d)
            return
    print(json.dumps(d, indent=1)[:4000])
    print("(no single-case replayer for this record kind; the record above is the failing case)")
