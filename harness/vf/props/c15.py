"""C15 - header-chain tracking (BlockChain / ChainFinder).

1. TLC model-checks spec/ChainFinder.tla (implementation-shaped, one step per
   set.pop()) against its canonical-form invariants and the refinement to
   spec/ChainTrack.tla (the property), for every forest, batching and pop order.
2. spec -> code: TLC prints every API-level behaviour (MC_ChainReplay); each is
   executed on pycoin's BlockChain under every relabelling of the headers
   (small ints pop in value order, so relabelling steers set.pop()) and with
   bytes hashes; the observable state after every call must be one the spec allows.
3. code -> spec: seeded random forests are delivered to the real BlockChain, the
   calls and resulting state are logged, and TLC validates the traces against
   Trace_ChainFinder (pop order is not logged; TLC infers it).
"""
from __future__ import annotations

import hashlib
import itertools
import json
import os
import random
import tempfile

from ..drv import chain as drv
from ..par import pmap, split, NPROC


def _obs(proj):
    """reduce a driver projection to the spec's observable record"""
    if "exc" in proj:
        return ("exc", proj["exc"])
    n = len(proj["idx"])
    idx = tuple(-1 if proj["idx"][str(i)] is None else proj["idx"][str(i)] for i in range(1, n + 1))
    ops = tuple(tuple(o) for o in proj.get("ops", ()))
    return (tuple(proj["chain"]), ops, idx, proj["locked"])


def _spec_obs(out, prev_ops):
    return (tuple(out["chain"]), tuple(tuple(o) for o in out["ops"]), tuple(out["idx"]), out["locked"])


def _self_consistent(par, wt, projs, acts):
    """checks on the real outputs that need no spec state (part of the projection)"""
    for p, a in zip(projs, acts):
        if "exc" in p:
            return "exception %s" % p["exc"]
        ch = p["chain"]
        if p["len"] != len(ch):
            return "length() != number of indexable hashes"
        if a[0] == "D" and p["cb"] != [p["ops"]]:
            return "callback ops differ from returned ops: %r vs %r" % (p["cb"], p["ops"])
        for i, h in enumerate(ch):
            if h == "?":
                return "unknown hash reported"
            want_parent = 0 if i == 0 else ch[i - 1]
            if p["tparent"][i] != want_parent:
                return "tuple_for_index(%d) parent %r != %r" % (i, p["tparent"][i], want_parent)
            if p["tweight"][i] != wt[h]:
                return "tuple_for_index(%d) weight %r != %r" % (i, p["tweight"][i], wt[h])
        if p["last"] != (ch[-1] if ch else 0):
            return "last_block_hash %r" % (p["last"],)
        if ch and p["neg1"] != ch[-1]:
            return "hash_for_index(-1) %r" % (p["neg1"],)
    return None


def _labelings(n, mode):
    labs = []
    perms = list(itertools.permutations(range(1, n + 1)))
    if mode != "all":
        rnd = random.Random(n)
        keep = {perms[0], perms[-1]}
        while len(keep) < min(len(perms), mode):
            keep.add(rnd.choice(perms))
        perms = sorted(keep)
    for p in perms:
        labs.append(("int", p))
    labs.append(("bytes", None))
    return labs


_LABCACHE = {}


def _label(n, lab):
    k = (n, lab)
    if k not in _LABCACHE:
        _LABCACHE[k] = drv.mk_label(lab[0], n, lab[1])
    return _LABCACHE[k]


def _replay_chunk(args):
    recs, labmode = args
    out = []
    for rec in recs:
        n = len(rec["par"])
        par = {i + 1: rec["par"][i] for i in range(n)}
        wt = {i + 1: rec["wt"][i] for i in range(n)}
        acts = rec["acts"]
        hist = [["D", sorted(a[1])] if a[0] == "D" else ["L", a[1]] for a in acts]
        want = tuple(_spec_obs(o, None) for o in rec["outs"])
        # behaviours that agree on the calls and on every observation before the last call form
        # one group: its members are the outcomes the spec allows for the last call (ties)
        key = hashlib.blake2b(json.dumps([rec["par"], rec["wt"], acts, rec["outs"][:-1]], sort_keys=True).encode(),
                              digest_size=10).digest()
        app = 0
        mask = 0
        bad = None
        for li, lab in enumerate(_labelings(n, labmode)):
            projs = drv.run_history(par, wt, hist, _label(n, lab))
            got = tuple(_obs(p) for p in projs)
            # a lock returns no ops: compare the lock steps without ops
            got2 = tuple((g[0], w[1], g[2], g[3]) if (a[0] == "L" and g[0] != "exc") else g
                         for g, w, a in zip(got, want, hist))
            if got2[:len(want) - 1] != want[:-1]:
                # the real run took another tie branch (or already failed) before the last call:
                # this record does not apply; the shorter behaviour judges that step
                continue
            app |= 1 << li
            incons = _self_consistent(par, wt, projs, hist)
            if incons is None and got2 == want:
                mask |= 1 << li
            elif bad is None:
                bad = {"label": lab, "got": got, "inconsistency": incons}
        out.append((key, app, mask, None if bad is None else {"par": rec["par"], "wt": rec["wt"], "acts": hist,
                                                               "spec_allows_one_of": [want], **bad}))
    return out


class Replayer:
    """streams TLC behaviour records into worker processes, ORs per-behaviour match masks"""

    def __init__(self, ctx, labmode):
        self.ctx = ctx
        self.labmode = labmode
        self.buf = []
        self.pending = []
        self.state = {}   # key -> [mask, badinfo]
        self.n = 0
        self.applied = 0
        import multiprocessing as mp
        self.pool = mp.get_context("fork").Pool(NPROC)

    def feed(self, rec):
        if rec.get("k") != "beh":
            return
        self.buf.append(rec)
        self.n += 1
        if len(self.buf) >= 400:
            self._flush()

    def _flush(self):
        if self.buf:
            self.pending.append(self.pool.apply_async(_replay_chunk, ((self.buf, self.labmode),)))
            self.buf = []
        while len(self.pending) > 4 * NPROC:
            self._collect(self.pending.pop(0))

    def _collect(self, ar):
        for key, app, mask, bad in ar.get():
            self.applied += bin(app).count("1")
            st = self.state.get(key)
            if st is None:
                self.state[key] = [mask, bad, app]
            else:
                st[0] |= mask
                st[2] |= app
                if st[1] is None:
                    st[1] = bad
                elif bad is not None:
                    st[1]["spec_allows_one_of"] = (st[1]["spec_allows_one_of"] + bad["spec_allows_one_of"])[:6]

    def finish(self, nlab_of):
        self._flush()
        for ar in self.pending:
            self._collect(ar)
        self.pending = []
        self.pool.close()
        self.pool.join()
        bad = []
        for key, (mask, info, app) in self.state.items():
            if info is None:
                continue
            if app & ~mask:
                bad.append(info)
        return bad


def _shape_key(info):
    """class-level signature of a failing behaviour: the forest up to relabelling is too fine;
    use (kinds of actions, whether a lock / duplicate is involved, what differs)"""
    acts = info["acts"]
    kinds = "".join(a[0] for a in acts)
    seen = set()
    dup = False
    for a in acts:
        if a[0] == "D":
            if seen & set(a[1]):
                dup = True
            seen |= set(a[1])
    got = info["got"]
    if info.get("inconsistency"):
        what = "inconsistent:" + info["inconsistency"].split(" ")[0]
    elif any(g[0] == "exc" for g in got):
        what = "exception:" + [g[1] for g in got if g[0] == "exc"][0].split(":")[0]
    else:
        want = info["spec_allows_one_of"][0]
        last_g, last_w = got[-1], want[-1]
        if len(last_g[0]) != len(last_w[0]) and all(len(w[-1][0]) != len(last_g[0]) for w in info["spec_allows_one_of"]):
            what = "chain-length"
        elif last_g[0] not in [w[-1][0] for w in info["spec_allows_one_of"]]:
            what = "chain"
        elif last_g[2] not in [w[-1][2] for w in info["spec_allows_one_of"]]:
            what = "index-lookup"
        else:
            what = "ops"
    return "C15|replay|acts=%s|dup=%s|%s" % (kinds, dup, what)


# ---------------------------------------------------------------- traces (code -> spec)

def _random_forest(rnd, n):
    par = {}
    order = list(range(1, n + 1))
    rnd.shuffle(order)
    placed = []
    for h in order:
        r = rnd.random()
        if not placed or r < 0.18:
            par[h] = 0 if rnd.random() < 0.6 else -1
        else:
            # bias to long chains with forks
            par[h] = placed[-1] if rnd.random() < 0.6 else rnd.choice(placed)
        placed.append(h)
    return par


def record_traces(seed, count, nmax, maxw=2):
    rnd = random.Random(seed)
    traces = []
    for t in range(count):
        n = rnd.randint(3, nmax)
        par = _random_forest(rnd, n)
        wt = {h: rnd.randint(1, maxw) for h in par}
        todo = list(par)
        rnd.shuffle(todo)
        hist = []
        nlock = 0
        delivered = []
        while todo and len(hist) < 8:
            k = rnd.randint(1, min(4, len(todo)))
            b, todo = todo[:k], todo[k:]
            if delivered and rnd.random() < 0.25:
                b = b + [rnd.choice(delivered)]
            delivered += b
            hist.append(["D", sorted(set(b))])
            if rnd.random() < 0.3 and nlock < 3:
                hist.append(["L", None])   # resolved at run time (needs the current length)
                nlock += 1
        lab = drv.mk_label("bytes" if t % 2 else "int", n, tuple(rnd.sample(range(1, n + 1), n)))
        # run step by step to resolve lock indices
        real_hist = []
        projs = []
        for a in hist:
            if a[0] == "L":
                cur = drv.run_history(par, wt, real_hist, lab)
                ln = cur[-1].get("len", 0) if cur else 0
                lk = cur[-1].get("locked", 0) if cur else 0
                if ln - lk < 1 and lk < 1:
                    continue
                # mostly a new lock; sometimes a prefix that is already locked (nothing may change)
                if lk >= 1 and (ln - lk < 1 or rnd.random() < 0.25):
                    a = ["L", rnd.randint(1, lk)]
                else:
                    a = ["L", rnd.randint(lk + 1, ln)]
            real_hist.append(a)
        projs = drv.run_history(par, wt, real_hist, lab, record_finder=True)
        traces.append({"par": par, "wt": wt, "n": n, "hist": real_hist, "projs": projs})
    return traces


def _trace_json(tr, N, internals=True):
    """pad to N headers and encode for Trace_ChainFinder / Trace_ChainTrack"""
    n = tr["n"]
    par = [tr["par"].get(i, -1) for i in range(1, N + 1)]
    wt = [tr["wt"].get(i, 1) for i in range(1, N + 1)]
    ev = []
    for a, p in zip(tr["hist"], tr["projs"]):
        if "exc" in p:
            ev.append({"a": a[0], "arg": a[1] if a[0] == "D" else [a[1]], "exc": 1, "hasf": 0,
                       "chain": [], "ops": [], "idx": [-1] * N, "locked": 0, "tfb": [], "dbt": []})
            break
        idx = [(-1 if p["idx"].get(str(i)) is None else p["idx"][str(i)]) for i in range(1, N + 1)]
        hasf = 1 if (internals and "tfb" in p and "dbt" in p) else 0
        ev.append({"a": a[0], "arg": a[1] if a[0] == "D" else [a[1]], "exc": 0, "hasf": hasf,
                   "chain": p["chain"], "ops": [[o[0], o[1], o[2]] for o in p.get("ops", [])],
                   "idx": idx, "locked": p["locked"],
                   # finder dicts as lists of <<key, value>> pairs (JSON objects would lose int keys)
                   "tfb": sorted([[int(k), v] for k, v in p["tfb"].items()]) if hasf else [],
                   "dbt": sorted([[int(k), v] for k, v in p["dbt"].items() if v]) if hasf else []})
    return {"par": par, "wt": wt, "ev": ev}


def validate_traces(ctx, traces, N, internals=True, module="Trace_ChainFinder"):
    """returns list of rejected trace indices (0-based)"""
    data = [_trace_json(t, N, internals) for t in traces]
    fd, path = tempfile.mkstemp(prefix="vf-c15-traces-", suffix=".json")
    with os.fdopen(fd, "w") as f:
        json.dump(data, f)
    try:
        r = ctx.tlc(module, module, workers=1, env={"TRACE_FILE": path},
                    count=False, timeout=1500, jvm=("-Dtlc2.tool.queue.IStateQueue=StateDeque",))
    finally:
        os.unlink(path)
    rej = None
    for rec in r.records:
        if isinstance(rec, dict) and rec.get("k") == "rejected":
            if rec["n"] != len(traces):
                from ..ctx import MachineryError
                raise MachineryError("trace run saw %s traces, %d were sent" % (rec["n"], len(traces)))
            rej = sorted(int(x) - 1 for x in rec["ids"])
    if rej is None:
        from ..ctx import MachineryError
        raise MachineryError("trace run printed no verdict: %s" % r.raw_tail[-5:])
    return rej, r


def run(ctx):
    q = ctx.quick
    ctx.rule = ("model: every acyclic parent function on N headers x weights x batchings x pop orders (TLC, exhaustive "
                "within the constants of each cfg); replay: every API-level behaviour printed by MC_ChainReplay executed on "
                "BlockChain under every relabelling; distinct_nontrivial = behaviours with >= 2 calls whose final chain is non-empty")
    ctx.assumptions += ["weights are positive integers", "TLC/SANY, CPython", "headers are hashable values; parent 0 is the anchor"]
    only = getattr(ctx, "only", None) or {"model", "replay", "trace"}
    # 1. model checking
    cfgs = ["MC_ChainFinder_q", "MC_ChainFinder_lock"] if q else ["MC_ChainFinder_t", "MC_ChainFinder_lock_t", "MC_ChainFinder_q", "MC_ChainFinder_lock"]
    for cfg in (cfgs if "model" in only else []):
        # -coverage doubles TLC's run time: only on the small configurations (vacuity guard), never on N = 5
        cov = (not q) and cfg in ("MC_ChainFinder_q", "MC_ChainFinder_lock")
        ctx.tlc("ChainFinder", cfg, coverage=cov, timeout=5000,
                require_actions=() if not cov else ("Pop", "AddBegin", "AddFinish") + (("LockBegin", "LockFinish") if "lock" in cfg else ()))
    # teeth of the model itself: the pre-fix meld loop must violate the canonical form
    r = ctx.tlc("ChainFinder", "MC_ChainFinder_legacy", expect_ok=False, count=False)
    ctx.selftest("model_rejects_legacy_meld", (not r.ok) and r.violated in ("Canonical", "ChainOk"))

    # 2. spec -> code
    nontriv = set()
    for cfg, labmode in ([] if "replay" not in only else
                         [("MC_ChainReplay_q", "all"), ("MC_ChainReplay_lockq", "all")] if q else
                         [("MC_ChainReplay_q", "all"), ("MC_ChainReplay_lock", "all"), ("MC_ChainReplay_t", 6), ("MC_ChainReplay_w", "all")]):
        rp = Replayer(ctx, labmode)
        cnt = [0]

        def on(rec, rp=rp):
            rp.feed(rec)
            cnt[0] += 1
            if len(rec["acts"]) >= 2 and rec["outs"][-1]["chain"]:
                nontriv.add(hashlib.blake2b(json.dumps(rec, sort_keys=True).encode(), digest_size=8).digest())
            if cnt[0] % 20011 == 1:
                ctx.sample({"behaviour": rec})
        ctx.tlc("MC_ChainReplay", cfg, on_record=on, keep_records=False, timeout=3000)
        bad = rp.finish(lambda n: len(_labelings(n, labmode)))
        nl = {n: len(_labelings(n, labmode)) for n in (3, 4, 5)}
        ctx.log("replayed %d behaviours of %s (x labelings %s; %d real executions compared): %d disagree" % (
            rp.n, cfg, nl, rp.applied, len(bad)))
        ctx.extra["real_executions_compared"] = ctx.extra.get("real_executions_compared", 0) + rp.applied
        ctx.replayed += rp.n
        ctx.case(None, rp.n)
        ctx.action("replay." + cfg, rp.n)
        for info in bad:
            ctx.fail(_shape_key(info), "BlockChain disagrees with ChainFinder/ChainTrack spec: acts=%s par=%s wt=%s label=%s got=%s" % (
                info["acts"], info["par"], info["wt"], info["label"], info["got"][-1],), info)
    for k in nontriv:
        ctx.case(k, 0)
    # replay self-test: a corrupted expectation must be noticed
    rec = {"k": "beh", "par": [0, 1, 2], "wt": [1, 1, 1], "acts": [["D", [1, 2, 3]]],
           "outs": [{"chain": [1, 2], "ops": [["add", 1, 0], ["add", 2, 1]], "idx": [0, 1, -1], "locked": 0}]}
    res = _replay_chunk(([rec], 2))
    ctx.selftest("replay_rejects_corrupted_expectation", res[0][1] != 0 and res[0][2] == 0)

    # 3. code -> spec
    if "trace" not in only:
        return
    N = 8
    # 3a. against the property itself (ChainTrack): many histories, observable state only
    nprop = 3000 if q else 40000
    ptraces = record_traces(ctx.seed * 104729 + 7, nprop, 8, maxw=3)
    for chunk in split(ptraces, max(1, len(ptraces) // 3000)):
        rej, _ = validate_traces(ctx, chunk, N, internals=False, module="Trace_ChainTrack")
        ctx.traces += len(chunk) - len(rej)
        ctx.case(None, len(chunk))
        for i in rej:
            t = chunk[i]
            kinds = "".join(a[0] for a in t["hist"])
            ctx.fail("C15|trace-property|locks=%s|exc=%s" % ("L" in kinds, any("exc" in p for p in t["projs"])),
                     "recorded BlockChain run violates ChainTrack.tla (the property): par=%s wt=%s hist=%s last=%s" % (
                         t["par"], t["wt"], t["hist"], {k: v for k, v in t["projs"][-1].items() if k in ("chain", "ops", "idx", "exc")}),
                     {"par": t["par"], "wt": t["wt"], "hist": t["hist"], "projs": t["projs"]})
    ctx.sample({"property_trace": _trace_json(ptraces[0], N, False)})
    # 3b. against the implementation-shaped model (ChainFinder): pop order inferred by TLC
    ntr = 300 if q else 3000
    traces = record_traces(ctx.seed * 7919 + 15, ntr, 7 if q else 8)
    accepted = []
    for chunk_i, chunk in enumerate(split(traces, max(1, len(traces) // 600))):
        rej, r = validate_traces(ctx, chunk, N)
        latent = []
        if rej:
            # the finder's dictionaries are internal state: re-validate on the observable fields only
            rej2, _ = validate_traces(ctx, [chunk[i] for i in rej], N, internals=False)
            hard = {rej[j] for j in rej2}
            latent = [i for i in rej if i not in hard]
            rej = sorted(hard)
        ctx.traces += len(chunk) - len(rej)
        ctx.case(None, len(chunk))
        accepted += [t for i, t in enumerate(chunk) if i not in rej and i not in latent]
        if chunk_i == 0:
            ctx.sample({"trace": _trace_json(chunk[0], N)})
        if latent:
            ctx.extra["traces_with_unexpected_internal_state"] = ctx.extra.get("traces_with_unexpected_internal_state", 0) + len(latent)
            ctx.log("note: %d traces match the model on every observable field but not on the finder's internal dictionaries "
                    "(not a violation of C15)" % len(latent))
        for i in rej:
            t = chunk[i]
            ctx.fail("C15|trace|rejected|exc=%s" % any("exc" in p for p in t["projs"]),
                     "recorded BlockChain run is not a behaviour of ChainFinder.tla: par=%s wt=%s hist=%s" % (t["par"], t["wt"], t["hist"]),
                     {"par": t["par"], "wt": t["wt"], "hist": t["hist"], "projs": t["projs"]})
    # binding self-test: corrupt one logged field of an accepted trace (skipped if nothing was accepted)
    import copy
    good = [t for t in accepted[:200] if len(t["projs"]) >= 2 and all("exc" not in p for p in t["projs"]) and t["projs"][-1]["chain"]
            and t["projs"][-1].get("tfb")]
    if good:
        bad1 = copy.deepcopy(good[0])
        bad1["projs"][-1]["chain"] = bad1["projs"][-1]["chain"][:-1]
        bad2 = copy.deepcopy(good[0])
        k0 = sorted(bad2["projs"][-1]["tfb"])[0]
        bad2["projs"][-1]["tfb"][k0] = bad2["projs"][-1]["tfb"][k0][:-1]
        rej, _ = validate_traces(ctx, [good[0], bad1, bad2], N)
        ctx.selftest("trace_rejects_corrupted_field", rej == [1, 2])
        rej, _ = validate_traces(ctx, [good[0], bad1], N, internals=False, module="Trace_ChainTrack")
        ctx.selftest("property_trace_rejects_corrupted_field", rej == [1])
    ctx.exhaustive = True
