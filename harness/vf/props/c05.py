"""C05 - signing standard inputs yields valid canonical signatures, changing nothing else.

1. TLC model-checks spec/Signer.tla (validity iff m listed keys signed, monotonicity, confluence
   over pass orderings / mechanisms, never valid with too few or wrong keys, frame) and the
   size-limit boundary facts.
2. spec -> code: TLC prints behaviours (shape of the transaction on a coin, signing passes, the
   states the specification allows after each pass); every pass is performed on a real pycoin
   transaction through the mechanism it names and the projected state must be an allowed one.
3. code -> spec: the signing scenarios of the repository's own tests and seeded random larger
   transactions are run under a recorder; TLC validates the logs against Trace_Signer.
"""
from __future__ import annotations

import hashlib
import json
import os
import random
import tempfile

from ..ctx import MachineryError
from ..drv import signing as drv
from ..par import NPROC

MULTI = drv.MULTI_KINDS


# ---------------------------------------------------------------- judging one behaviour record

def _pass_key(a):
    return json.dumps([a["mech"], a["K"], a["I"], a["ht"], a["scr"], a["reg"], a["sec"], a["fresh"], a["ic"],
                       a.get("field"), a.get("pos"), a.get("sc"), a.get("via")])


def _case_key(rec):
    return json.dumps([rec["coin"], rec["shape"]], sort_keys=True)


class _Node(object):
    __slots__ = ("key", "ses", "proj", "frame", "unl", "exc", "exc_tb", "bad")


def _exec_pass(coin, parent, shape, a, bits, nout=2, want_bad=False):
    n = _Node()
    n.key = _pass_key(a)
    n.bad = None
    n.ses = parent.ses.clone() if parent is not None else drv.Session(coin, shape, n_out=nout)
    n.exc = None
    try:
        n.ses.sign(a)
    except Exception as e:  # noqa
        import traceback
        n.exc = "%s: %s" % (type(e).__name__, e)
        n.exc_tb = traceback.format_exc()[-800:]
    tx = n.ses.tx
    n.frame = drv.frame_of(tx)
    n.unl = [drv.unlocking_of(tx, i) for i in range(len(tx.txs_in))]
    # an input whose unlocking data is byte-identical in a transaction whose frame is identical
    # projects as before (the projection is a function of those bytes)
    if want_bad and n.exc is None:
        try:
            n.bad = tx.bad_solution_count()          # what the caller of sign_tx / Tx.sign reads afterwards
        except Exception as e:  # noqa
            n.exc = "bad_solution_count: %s: %s" % (type(e).__name__, e)
    same = parent is not None and parent.frame == n.frame
    n.proj = [parent.proj[i] if (same and parent.unl[i] == n.unl[i]) else drv.project_input(coin, tx, i, pz, bits)
              for i, pz in enumerate(n.ses.puzzles)]
    return n


def _kindclass(d):
    return "multi" if d["kind"] in MULTI else "single"


def _judge_step(rec, j, prev, node, base):
    """compare the real state after pass j with what the specification allows.
    Returns (status, failures): status 'same' (real state = the state this record continues
    from), 'other' (another allowed state: the rest of the record does not apply), 'bad'."""
    a = rec["acts"][j]
    shape = rec["shape"]
    coin = rec["coin"]
    fails = []

    def F(key, what):
        fails.append((key, what, {"coin": coin, "shape": shape, "acts": [{k: v for k, v in x.items() if k != "allowed"} for x in rec["acts"][:j + 1]],
                                  "allowed_last": a["allowed"][:6], "got": [{k: v for k, v in p.items()} for p in node.proj]}))

    ctxs = "mech=%s" % a["mech"]
    if node.exc:
        stale = [i for i in range(len(shape)) if (i + 1) in a["touch"] and prev is not None and prev.proj[i]["junk"] > 0
                 and shape[i]["kind"] not in MULTI]
        if stale and any(x["mech"] == "edit" for x in rec["acts"][:j]):
            # the input carries a signature that no longer verifies (the caller edited a committed field)
            F("C05|sign|exception=%s|over-stale-signature|kindclass=single" % node.exc.split(":")[0],
              "signing again over the stale signature of input %d (%s) raised %s" % (stale[0], shape[stale[0]]["kind"], node.exc))
        else:
            F("C05|sign|exception=%s|%s" % (node.exc.split(":")[0], ctxs), "signing raised %s" % node.exc)
        return "bad", fails
    if a["mech"] == "keychain" and not node.ses.same_as_fresh:
        F("C05|keychain-history|long-lived-differs-from-fresh|%s" % ("after-kc_add" if any(x["mech"] == "kc_add" for x in rec["acts"][:j]) else "passes-only"),
          "the long-lived keychain signed differently from a fresh keychain holding the same paths / secrets / scripts")
    if a["mech"] == "lookup" and node.ses.hint_problems:
        F("C05|sig-encoding|from-outside-signature|%s" % node.ses.hint_problems[0].split(": ")[-1],
          "the same pass given the signatures as outside signatures (signature_hints, high-S form) instead of the keys "
          "wrote a signature that is not canonical: %s" % node.ses.hint_problems[:3])
    if a["mech"] == "create_signed":
        # the front-end either raises or hands back a transaction: it must raise exactly when the
        # specification leaves some input failing validation
        may_raise = any(al["raises"] for al in a["allowed"])
        may_return = any(not al["raises"] for al in a["allowed"])
        if node.ses.raised and not may_raise:
            F("C05|create_signed_tx|raised|expected=return", "create_signed_tx raised SecretExponentMissing although every input can be signed with the WIFs given")
            return "bad", fails
        if not node.ses.raised and not may_return:
            nin, nout = len(shape), rec.get("nout", 2)
            F("C05|create_signed_tx|returned|expected=raise|inputs%soutputs" % (">" if nin > nout else "<=",),
              "create_signed_tx returned a transaction although the WIFs given leave an input unsigned (%d inputs, %d outputs, keys %s): bad_solution_count() = %s" % (
                  nin, nout, a["K"], node.bad))
            return "bad", fails
        if node.ses.raised:
            return "other", fails          # no transaction to look at
        base = (node.frame, base[1])       # the front-end built the transaction itself
    before_frame = prev.frame if prev is not None else base[0]
    before_unl = prev.unl if prev is not None else base[1]
    fd = drv.frame_diff(before_frame, node.frame)
    if a["mech"] == "edit":
        want_fd = {"ver": "version", "lock": "lock_time", "oph": "outpoints", "opi": "outpoints", "seq": "sequences",
                   "out_amt": "outputs", "out_spk": "outputs", "spent_amt": "unspents"}[a["field"]]
        if fd != [want_fd]:
            raise MachineryError("the harness's edit %s/%s changed %s" % (a["field"], a["pos"], fd))
    elif fd:
        F("C05|frame|changed=%s" % ",".join(fd), "signing changed %s" % fd)
    for i in range(len(shape)):
        if (i + 1) not in a["touch"] and node.unl[i] != before_unl[i]:
            asked = (i + 1) in a["I"]
            F("C05|touched|asked=%s|kindclass=%s" % (asked, _kindclass(shape[i])),
              "input %d was %s but its unlocking data changed" % (i, "already valid" if asked else "not in the set to sign"))
    got = [p["signed"] for p in node.proj]
    match = [al for al in a["allowed"] if al["s"] == got]
    if not match:
        want = rec["outs"][j]["signed"]
        for i in range(len(shape)):
            if all(al["s"][i] != got[i] for al in a["allowed"]):
                gk = set(x[0] for x in got[i])
                wk = set(x[0] for x in want[i])
                pk = set(x[0] for x in (prev.proj[i]["signed"] if prev is not None else []))
                if not pk <= gk:
                    rel = "lost-existing"
                elif len(gk) < len(wk):
                    rel = "fewer"
                elif len(gk) > len(wk):
                    rel = "more"
                elif gk == wk or any(al["s"][i] and set(x[0] for x in al["s"][i]) == gk for al in a["allowed"]):
                    rel = "wrong-byte"
                else:
                    rel = "other-keys"
                F("C05|signed|kindclass=%s|form=%s|%s|got=%s" % (_kindclass(shape[i]), shape[i]["form"], ctxs, rel),
                  "after the pass input %d (%s %d-of-%d) carries signatures %s; the specification allows %s" % (
                      i, shape[i]["kind"], shape[i]["m"], len(shape[i]["keys"]), got[i], sorted(set(json.dumps(al["s"][i]) for al in a["allowed"]))[:4]))
                break
        return "bad", fails
    exp_valid = match[0]["v"]
    if node.bad is not None and node.bad != match[0]["bad"]:
        F("C05|bad_solution_count|front-end=%s|expected=%s|got=%s" % (a["mech"], match[0]["bad"], node.bad),
          "after the pass bad_solution_count() = %s; the specification counts %s failing inputs" % (node.bad, match[0]["bad"]))
    for i in range(len(shape)):
        p = node.proj[i]
        if "crash" in p:
            F("C05|validate|exception=%s" % p["crash"].split(":")[0], "validation raised %s" % p["crash"])
        items = sum(drv.n_unlocking_items(node.ses.net, node.ses.tx, i))
        for name in ("valid", "ok_api"):
            if p[name] != exp_valid[i]:
                F("C05|%s|kindclass=%s|items>10=%s|expected=%s|got=%s" % (
                    {"valid": "policy-flags", "ok_api": "is_solution_ok"}[name],
                    _kindclass(shape[i]), items > 10, exp_valid[i], p[name]),
                  "input %d (%s %d-of-%d, %d unlocking items) with signatures of keys %s: expected valid=%s, %s says %s (%s)" % (
                      i, shape[i]["kind"], shape[i]["m"], len(shape[i]["keys"]), items, [x[0] for x in p["signed"]], exp_valid[i],
                      name, p[name], p.get("err")))
                break
        if p["enc"]:
            F("C05|sig-encoding|%s" % p["enc"][0], "input %d: a signature present is not canonical: %s" % (i, p["enc"]))
        if p.get("nsig", 0) > rec.get("cap", [d["m"] for d in shape])[i]:
            F("C05|accumulated-signatures|kindclass=%s" % _kindclass(shape[i]),
              "input %d (%s %d-of-%d) carries %d signature items: stale signatures were kept next to new ones" % (
                  i, shape[i]["kind"], shape[i]["m"], len(shape[i]["keys"]), p["nsig"]))
    if fails:
        return "bad", fails
    return ("same" if got == rec["outs"][j]["signed"] else "other"), fails


def _replay_chunk(recs):
    """recs: records of ONE case sorted by their pass sequences (depth-first order)"""
    out_fail = []
    stats = {"passes": 0, "judged": 0, "applied": 0, "classes": set()}
    stack = []
    cur_case = None
    base = None
    for rec in recs:
        ck = _case_key(rec)
        bits = drv.flag_bits(rec["flags"])
        if ck != cur_case:
            cur_case = ck
            stack = []
            s0 = drv.Session(rec["coin"], rec["shape"], n_out=rec.get("nout", 2))
            base = (drv.frame_of(s0.tx), [drv.unlocking_of(s0.tx, i) for i in range(len(rec["shape"]))])
        keys = [_pass_key(a) for a in rec["acts"]]
        L = 0
        while L < len(stack) and L < len(keys) and stack[L].key == keys[L]:
            L += 1
        del stack[L:]
        for j in range(L, len(keys)):
            parent = stack[-1] if stack else None
            stack.append(_exec_pass(rec["coin"], parent, rec["shape"], rec["acts"][j], bits, nout=rec.get("nout", 2),
                                    want_bad=rec.get("mode") in ("front", "kc")))
            stats["passes"] += 1
        applied = True
        for j in range(len(keys)):
            status, fails = _judge_step(rec, j, stack[j - 1] if j else None, stack[j], base)
            stats["judged"] += 1
            if j == len(keys) - 1:
                a = rec["acts"][j]
                stats["classes"].add((rec["coin"], tuple(d["kind"] + d["form"] for d in rec["shape"]), a["mech"], a["ht"],
                                      len(a["sup"]) > 1, json.dumps(rec["outs"][j]["valid"])))
            if status == "bad":
                out_fail += fails
                applied = j == len(keys) - 1
                break
            if status == "other" and j < len(keys) - 1:
                applied = False
                break
        if applied:
            stats["applied"] += 1
    return out_fail, stats


def _group(records):
    """one chunk per (coin, shape, first pass); records inside in depth-first order"""
    groups = {}
    for r in records:
        groups.setdefault(_case_key(r) + _pass_key(r["acts"][0]), []).append(r)
    chunks = []
    for k in sorted(groups):
        g = groups[k]
        g.sort(key=lambda r: [_pass_key(a) for a in r["acts"]])
        chunks.append(g)
    return chunks


def replay_records(ctx_or_none, records, procs=NPROC):
    import multiprocessing as mp
    chunks = _group(records)
    chunks.sort(key=lambda g: -sum(len(r["acts"]) * sum(len(d["keys"]) for d in r["shape"]) for r in g))
    if procs > 1 and len(chunks) > 1:
        with mp.get_context("fork").Pool(procs) as pool:
            res = pool.map(_replay_chunk, chunks, chunksize=1)
    else:
        res = [_replay_chunk(c) for c in chunks]
    fails = []
    tot = {"passes": 0, "judged": 0, "applied": 0, "classes": set()}
    for f, st in res:
        fails += f
        for k in ("passes", "judged", "applied"):
            tot[k] += st[k]
        tot["classes"] |= st["classes"]
    return fails, tot


def _collect(ctx, module, cfg, **kw):
    recs = []
    r = ctx.tlc(module, cfg, on_record=lambda rec: recs.append(rec) if rec.get("k") == "beh" else None,
                keep_records=False, **kw)
    return recs, r


def run(ctx):
    q = ctx.quick
    only = getattr(ctx, "only", None)

    def want(stage):
        return only is None or stage in only
    ctx.rule = ("model: every pass (key subsets x input subsets x hash types x mechanisms x keychain tables) on small shapes, "
                "TLC exhaustive within each cfg; replay: every behaviour TLC prints is executed pass by pass on a real transaction; "
                "distinct_nontrivial = distinct (coin, puzzle kinds+key forms, mechanism, hash type, single/multi-key pass, validity vector) "
                "classes of the last pass of a replayed behaviour")
    ctx.assumptions += ["ECDSA signatures verify only under the key that made them (unforgeability)",
                        "pycoin's signature hash (C04), script VM (C03), BIP32 derivation (C09) are used to build and project the cases",
                        "TLC/SANY, CPython, OpenSSL via pycoin's native binding"]
    # 1. model
    if want("model"):
        for cfg in (["MC_Signer_q", "MC_Signer_deep_q", "MC_Signer_oc"] if q else ["MC_Signer_q", "MC_Signer_deep_q", "MC_Signer_oc", "MC_Signer_t"]):
            ctx.tlc("MC_Signer", cfg, coverage=not q, timeout=3000, require_actions=() if q else ("Next",))

    # 2. spec -> code
    if want("replay") or any(o.startswith("replay_") for o in (only or ())):
        plans = ([("MC_SignerReplay_ord_q", {}), ("MC_SignerReplay_prod", {}), ("MC_SignerReplay_front", {}), ("MC_SignerReplay_edit_q", {}), ("MC_SignerReplay_kc_q", {}), ("MC_SignerReplay_lim_q", {})] if q else
                 [("MC_SignerReplay_ord_t", {}), ("MC_SignerReplay_prod", {}), ("MC_SignerReplay_front", {}), ("MC_SignerReplay_edit_t", {}), ("MC_SignerReplay_edit_long", {}), ("MC_SignerReplay_kc_t", {}), ("MC_SignerReplay_lim_t", {})])
        for cfg, kw in plans:
            if only is not None and "replay" not in only and not any(o.startswith("replay_") and o[7:] in cfg for o in only):
                continue
            recs, r = _collect(ctx, "MC_SignerReplay", cfg, timeout=3000, **kw)
            if not recs:
                raise MachineryError("no behaviour printed by %s" % cfg)
            fails, tot = replay_records(ctx, recs)
            ctx.log("replayed %d behaviours of %s: %d signing passes executed, %d steps judged, %d behaviours applied, %d disagreements" % (
                len(recs), cfg, tot["passes"], tot["judged"], tot["applied"], len(fails)))
            # (records that differ only in the specification's free choice of signers share one real execution,
            # and a known failure ends the behaviours that run into it: compare with the executions made)
            if tot["applied"] < min(len(recs), tot["passes"]) // 3:
                raise MachineryError("vacuity: only %d of %d behaviours of %s (%d real executions) applied" % (
                    tot["applied"], len(recs), cfg, tot["passes"]))
            ctx.replayed += len(recs)
            ctx.case(None, tot["passes"])
            ctx.action("replay." + cfg, len(recs))
            for c in tot["classes"]:
                ctx.case(c, 0)
            ctx.sample({"behaviour": {k: v for k, v in recs[len(recs) // 2].items()}})
            for key, what, detail in fails:
                ctx.fail(key, what, detail)
        # binding self-test: a behaviour whose expected outcome is corrupted must be rejected
        rec = {"k": "beh", "coin": "BTC", "shape": [{"kind": "p2pkh", "m": 1, "keys": [1], "form": "c"}],
               "acts": [{"mech": "lookup", "K": [1], "I": [1], "ht": 1, "scr": True, "reg": [], "sec": [], "fresh": True, "ic": "none", "sc": "list", "via": "paths",
                         "sup": [1], "touch": [1], "allowed": [{"s": [[[1, 1]]], "v": [True], "bad": 0, "raises": False}]}],
               "outs": [{"signed": [[[1, 1]]], "valid": [True]}],
               "flags": ["P2SH", "STRICTENC", "DERSIG", "LOW_S", "NULLDUMMY", "CLEANSTACK", "WITNESS", "NULLFAIL"], "sigbyte": 1}
        f0, _ = replay_records(None, [rec], procs=1)
        bad = json.loads(json.dumps(rec))
        bad["acts"][0]["allowed"] = [{"s": [[[1, 3]]], "v": [True], "bad": 0, "raises": False}]
        f1, _ = replay_records(None, [bad], procs=1)
        bad2 = json.loads(json.dumps(rec))
        bad2["acts"][0]["allowed"] = [{"s": [[[1, 1]]], "v": [False], "bad": 1, "raises": False}]
        f2, _ = replay_records(None, [bad2], procs=1)
        ctx.selftest("replay_rejects_corrupted_expectation", (not f0) and bool(f1) and bool(f2))

    # 3. code -> spec
    if want("traces"):
        run_traces(ctx)
    ctx.exhaustive = False


# ---------------------------------------------------------------- traces (code -> spec)

STD_FLAGS = ["P2SH", "STRICTENC", "DERSIG", "LOW_S", "NULLDUMMY", "MINIMALDATA", "DISCOURAGE_UPGRADABLE_NOPS", "CLEANSTACK",
             "CHECKLOCKTIMEVERIFY", "CHECKSEQUENCEVERIFY", "WITNESS", "DISCOURAGE_UPGRADABLE_WITNESS_PROGRAM", "MINIMALIF",
             "NULLFAIL", "WITNESS_PUBKEYTYPE"]
REPO_TEST_MODULES = ["tests.sign_test", "tests.multisig_individual_test", "tests.solver_test", "tests.btc.segwit_test",
                     "tests.who_signed_test", "tests.build_tx_test", "tests.tx_utils_test", "tests.pay_to_test",
                     "tests.sighash_single_test"]


def policy_names_for(coin):
    """the flag names the recorder validates with.  They are not trusted: every trace run starts by
    checking them against PolicyFlags(coin) printed by TLC (see _flags_from_spec)."""
    return [f for f in STD_FLAGS if not (coin in ("BCH", "BTG") and f == "STRICTENC")]


def _record_repo(_):
    from ..ctx import REPO
    return drv.record_repo_tests(REPO, REPO_TEST_MODULES, policy_names_for)


SINGLE = ("p2pk", "p2pkh", "p2wpkh", "p2sh_p2wpkh")
LIMIT_P2SH = {"c": 15, "u": 7}


def _random_desc(rnd, coin, big):
    wit_ok = coin != "BCH"
    while True:
        kind = rnd.choice(SINGLE + MULTI + MULTI)
        if kind in drv.WITNESS_KINDS and not wit_ok:
            continue
        form = "c" if kind in drv.WITNESS_KINDS else rnd.choice("ccu")
        if kind in SINGLE:
            return {"kind": kind, "m": 1, "keys": [rnd.randint(1, 24)], "form": form}
        nmax = LIMIT_P2SH[form] if kind == "ms_p2sh" else 20
        n = rnd.randint(1, min(nmax, 5))
        if big and rnd.random() < 0.35:
            n = rnd.randint(6, nmax)
        m = rnd.choice([1, n, rnd.randint(1, n), max(1, n - 1)])
        return {"kind": kind, "m": m, "keys": rnd.sample(range(1, 25), n), "form": form}


def _record_random(args):
    seed, count, big = args
    rnd = random.Random(seed)
    out = []
    for t in range(count):
        coin = rnd.choice(drv.COINS)
        shape = [_random_desc(rnd, coin, big) for _ in range(rnd.randint(1, 4 if not big else 5))]
        if rnd.random() < 0.3:
            # address reuse: the same puzzle (same keys, byte-identical script) at two positions
            shape.insert(rnd.randint(0, len(shape)), dict(rnd.choice(shape)))
        small = len(shape) <= 3 and all(len(d["keys"]) <= 4 for d in shape)
        ses = drv.Session(coin, shape, n_out=rnd.randint(1, 3))
        bits = drv.flag_bits(policy_names_for(coin))
        n = len(shape)
        listed = sorted(set(k for d in shape for k in d["keys"]))
        frame0 = hashlib.sha256(repr(sorted(drv.frame_of(ses.tx).items())).encode()).hexdigest()[:16]
        ev = []
        last_pr = [drv.project_input(coin, ses.tx, i, pz, bits) for i, pz in enumerate(ses.puzzles)]
        last_unl = [drv.unlocking_of(ses.tx, i) for i in range(n)]
        mech0 = rnd.choice(["lookup", "wifs", "keychain", "keychain"])
        for _ in range(rnd.randint(1, 6)):
            mech = mech0 if rnd.random() < 0.7 else rnd.choice(["lookup", "wifs", "keychain"])
            r = rnd.random()
            if r < 0.35:
                K = [rnd.choice(listed)]
            elif r < 0.55:
                K = list(listed)
            else:
                K = rnd.sample(listed, rnd.randint(0, len(listed)))
            if rnd.random() < 0.3:
                K.append(rnd.randint(25, 30))          # a wrong key
            # keep the number of ways an over-supplied pass may choose its signers small (TLC enumerates none,
            # but the real signer's choice must stay attributable)
            r = rnd.random()
            if r < 0.1:
                I, ic = [], rnd.choice(["set", "list", "tuple"])          # explicitly nothing to sign
            elif r < 0.45:
                I, ic = sorted(rnd.sample(range(1, n + 1), rnd.randint(1, n))), rnd.choice(["set", "list", "tuple"])
            else:
                I, ic = list(range(1, n + 1)), rnd.choice(["none", "none", "list", "set"])
            p = {"mech": mech, "K": sorted(set(K)), "I": I, "ht": rnd.choice([1, 1, 2, 3, 129, 130, 131]),
                 "scr": rnd.random() < 0.85, "reg": [], "sec": [], "fresh": True, "ic": ic,
                 "sc": rnd.choice(["list", "tuple", "set", "gen", "iter"]), "via": rnd.choice(["paths", "keys12", "keys21"])}
            if mech == "keychain":
                p["reg"] = p["K"]
                p["K"] = []
                p["sec"] = [1, 2] if rnd.random() < 0.5 else rnd.choice([[1], [2], []])
                p["fresh"] = rnd.random() < 0.4
                if rnd.random() < 0.5:
                    # edit the long-lived keychain in a step of its own, then sign with what it holds
                    add = {"mech": "kc_add", "K": [], "I": [], "ht": 1, "scr": p["scr"] and rnd.random() < 0.7,
                           "reg": p["reg"] if rnd.random() < 0.7 else [], "sec": p["sec"] if rnd.random() < 0.7 else [],
                           "fresh": False, "ic": "set", "sc": rnd.choice(["list", "gen", "iter"]), "via": p["via"]}
                    ses.sign(add)
                    e = dict(add)
                    e.update({"bad": ses.tx.bad_solution_count(), "raised": False, "nsig": [x["nsig"] for x in last_pr],
                              "signed": [x["signed"] for x in last_pr], "valid": [x["valid"] for x in last_pr],
                              "reported": [x["ok_api"] for x in last_pr], "canonical": True, "same_as_fresh": True,
                              "changed": [i + 1 for i in range(n) if drv.unlocking_of(ses.tx, i) != last_unl[i]],
                              "frame": hashlib.sha256(repr(sorted(drv.frame_of(ses.tx).items())).encode()).hexdigest()[:16]})
                    ev.append(e)
                    p["fresh"] = False
                    if rnd.random() < 0.6:
                        p["reg"], p["sec"], p["scr"] = [], [], False
            if not ev and small and rnd.random() < 0.5:
                # the one-call front-end: build + sign with WIFs; it raises or returns a transaction
                p = {"mech": "create_signed", "K": sorted(set(k for k in K if k <= 24)), "I": list(range(1, n + 1)), "ht": p["ht"],
                     "scr": p["scr"], "reg": [], "sec": [], "fresh": True, "ic": "none", "sc": p["sc"], "via": "paths"}
                mech = "create_signed"
            before = [drv.unlocking_of(ses.tx, i) for i in range(n)]
            stale_single = any((i + 1) in p["I"] and not last_pr[i]["valid"] and last_pr[i]["nsig"] > 0 and shape[i]["kind"] not in MULTI
                               for i in range(n))
            exc = None
            try:
                ses.sign(p)
            except Exception as e:  # noqa
                exc = "%s: %s" % (type(e).__name__, e)
            pr = [drv.project_input(coin, ses.tx, i, pz, bits) for i, pz in enumerate(ses.puzzles)]
            e = dict(p)
            e["signed"] = [x["signed"] for x in pr]
            e["valid"] = [x["valid"] for x in pr]
            e["reported"] = [x["ok_api"] for x in pr]
            e["nsig"] = [x["nsig"] for x in pr]
            e["raised"] = bool(ses.raised) if mech == "create_signed" else False
            if mech == "create_signed":
                frame0 = hashlib.sha256(repr(sorted(drv.frame_of(ses.tx).items())).encode()).hexdigest()[:16]
                before = [drv.unlocking_of(ses.tx, i) if ses.raised else ((), ()) for i in range(n)]
            try:
                e["bad"] = ses.tx.bad_solution_count()
            except Exception as ex:  # noqa
                e["bad"], exc = -1, exc or ("bad_solution_count: %s" % ex)
            e["canonical"] = (not any(x["enc"] for x in pr) and exc is None and not any("crash" in x for x in pr)
                              and not ses.hint_problems)      # also what the pass writes from outside signatures
            e["same_as_fresh"] = bool(ses.same_as_fresh) if mech == "keychain" else True
            last_pr, last_unl = pr, [drv.unlocking_of(ses.tx, i) for i in range(n)]
            e["changed"] = [i + 1 for i in range(n) if drv.unlocking_of(ses.tx, i) != before[i]]
            e["frame"] = hashlib.sha256(repr(sorted(drv.frame_of(ses.tx).items())).encode()).hexdigest()[:16]
            e["note"] = {"exc": exc, "stale_single": stale_single, "hint": list(ses.hint_problems), "err": [x.get("err") for x in pr], "enc": [x["enc"] for x in pr],
                         "items": [sum(drv.n_unlocking_items(ses.net, ses.tx, i)) for i in range(n)]}
            ev.append(e)
            if e["raised"] or exc is not None:
                break
            if rnd.random() < 0.3:
                # the caller edits a field of the transaction before the next pass
                nout_now = len(ses.tx.txs_out)
                field = rnd.choice(["ver", "lock", "oph", "opi", "seq", "seq", "out_amt", "out_amt", "out_spk", "spent_amt"])
                if field in ("out_amt", "out_spk") and nout_now == 0:
                    field = "lock"
                pos = 0 if field in ("ver", "lock") else rnd.randint(1, nout_now if field.startswith("out_") else n)
                ed = {"mech": "edit", "field": field, "pos": pos, "K": [], "I": [], "ht": 1, "scr": False, "reg": [], "sec": [],
                      "fresh": False, "ic": "set", "sc": "list", "via": "paths"}
                ses.sign(ed)
                pr = [drv.project_input(coin, ses.tx, i, pz, bits) for i, pz in enumerate(ses.puzzles)]
                ed.update({"signed": [x["signed"] for x in pr], "valid": [x["valid"] for x in pr], "reported": [x["ok_api"] for x in pr],
                           "nsig": [x["nsig"] for x in pr], "bad": ses.tx.bad_solution_count(), "raised": False, "canonical": True,
                           "same_as_fresh": True, "changed": [i + 1 for i in range(n) if drv.unlocking_of(ses.tx, i) != last_unl[i]],
                           "frame": hashlib.sha256(repr(sorted(drv.frame_of(ses.tx).items())).encode()).hexdigest()[:16]})
                ev.append(ed)
                last_pr = pr
        out.append({"coin": coin, "shape": shape, "pre": [[] for _ in shape], "frame": frame0, "nout": len(ses.tx.txs_out), "ev": ev})
    return out


def validate_traces(ctx, traces, diag=False):
    """TLC run of Trace_Signer over a batch; returns 0-based indices of rejected traces
    (diag=True: also the per-trace diagnosis records printed before the last event)"""
    data = [{k: v for k, v in t.items()} for t in traces]
    for t in data:
        t["ev"] = [{k: v for k, v in e.items() if k != "note"} for e in t["ev"]]
    fd, path = tempfile.mkstemp(prefix="vf-c05-traces-", suffix=".json")
    with os.fdopen(fd, "w") as f:
        json.dump(data, f)
    try:
        r = ctx.tlc("Trace_Signer", "Trace_Signer_diag" if diag else "Trace_Signer", workers=1, env={"TRACE_FILE": path},
                    count=False, timeout=1500)
    finally:
        os.unlink(path)
    rej = None
    diags = {}
    for rec in r.records:
        if isinstance(rec, dict) and rec.get("k") == "rejected":
            if rec["n"] != len(traces):
                raise MachineryError("trace run saw %s traces, %d were sent" % (rec["n"], len(traces)))
            rej = sorted(int(x) - 1 for x in rec["ids"])
        elif isinstance(rec, dict) and rec.get("k") == "diag":
            diags[int(rec["tid"]) - 1] = rec["exp"]
    if rej is None:
        raise MachineryError("trace run printed no verdict: %s" % r.raw_tail[-5:])
    return (rej, diags) if diag else rej


def _diagnose(ctx, bad):
    """bad: rejected traces.  Returns [(index of the first rejected event, what the specification
    allows there)] - two TLC runs for the whole batch."""
    prefixes, owner = [], []
    for ti, t in enumerate(bad):
        for n in range(1, len(t["ev"]) + 1):
            prefixes.append(dict(t, ev=t["ev"][:n]))
            owner.append((ti, n))
    rej = set(validate_traces(ctx, prefixes))
    first = {}
    for pi, (ti, n) in enumerate(owner):
        if pi in rej and ti not in first:
            first[ti] = n
    cut = [dict(t, ev=t["ev"][:first.get(ti, len(t["ev"]))]) for ti, t in enumerate(bad)]
    _, diags = validate_traces(ctx, cut, diag=True)
    return [(first.get(ti, len(t["ev"])) - 1, diags.get(ti)) for ti, t in enumerate(bad)]


def _trace_key(t, j, exp):
    """class of the disagreement at event j, given what the specification allows there (exp: per input
    target / present / pool / touchable / signable / byte / need, printed by TLC)"""
    e = t["ev"][j]
    note = e.get("note") or {}
    ctxs = "mech=%s" % e["mech"]
    if note.get("exc"):
        if note.get("stale_single") and any(x["mech"] == "edit" for x in t["ev"][:j]):
            return "C05|sign|exception=%s|over-stale-signature|kindclass=single" % note["exc"].split(":")[0]
        return "C05|sign|exception=%s|%s" % (note["exc"].split(":")[0], ctxs)
    if e["mech"] == "edit":
        return "C05|edit|signatures-after-edit-differ-from-commitment-table|field=%s" % e["field"]
    if any(k > d["m"] for k, d in zip(e.get("nsig", []), t["shape"])):
        return "C05|accumulated-signatures|kindclass=%s" % ("multi" if any(k > d["m"] and d["kind"] in MULTI for k, d in zip(e["nsig"], t["shape"])) else "single")
    frame_now = ([x["frame"] for x in t["ev"][:j] if x["mech"] == "edit"] or [t["frame"]])[-1]   # the caller's edits move it
    if e["mech"] != "edit" and e["frame"] != frame_now:
        return "C05|frame|changed"
    if exp is None:
        return "C05|trace|unexplained"
    for i, d in enumerate(t["shape"]):
        kc = "multi" if d["kind"] in MULTI else "single"
        x = exp[i]
        got = set(k for k, b in e["signed"][i])
        if len(got) != len(e["signed"][i]):
            return "C05|signed|kindclass=%s|form=%s|%s|got=two-signatures-of-one-key" % (kc, d["form"], ctxs)
        if not x["touchable"] and (i + 1) in e["changed"]:
            return "C05|touched|asked=%s|kindclass=%s" % ((i + 1) in e["I"], kc)
        if not set(x["present"]) <= got:
            return "C05|signed|kindclass=%s|form=%s|%s|got=lost-existing" % (kc, d["form"], ctxs)
        target = x["target"] if x["signable"] else len(x["present"])
        if len(got) != target:
            return "C05|signed|kindclass=%s|form=%s|%s|got=%s" % (kc, d["form"], ctxs, "fewer" if len(got) < target else "more")
        if not got <= set(x["pool"]):
            return "C05|signed|kindclass=%s|form=%s|%s|got=other-keys" % (kc, d["form"], ctxs)
        if any(b != x["byte"] for k, b in e["signed"][i] if k not in x["present"]):
            return "C05|signed|kindclass=%s|form=%s|%s|got=wrong-byte" % (kc, d["form"], ctxs)
    for i, d in enumerate(t["shape"]):
        kc = "multi" if d["kind"] in MULTI else "single"
        want = len(e["signed"][i]) >= exp[i]["need"]
        items = (note.get("items") or [0] * len(t["shape"]))[i]
        if e["valid"][i] != want:
            return "C05|policy-flags|kindclass=%s|items>10=%s|expected=%s|got=%s" % (kc, items > 10, want, e["valid"][i])
        if e["reported"][i] != want:
            return "C05|is_solution_ok|kindclass=%s|items>10=%s|expected=%s|got=%s" % (kc, items > 10, want, e["reported"][i])
    if not e["canonical"] and note.get("hint"):
        return "C05|sig-encoding|from-outside-signature|%s" % note["hint"][0].split(": ")[-1]
    if not e["canonical"]:
        return "C05|sig-encoding|%s" % ((([x for y in (note.get("enc") or []) for x in y]) or ["?"])[0])
    return "C05|trace|unexplained"


def _flags_from_spec(ctx):
    """PolicyFlags(coin) as TLC evaluates it (one prod-mode record per coin is enough)"""
    got = {}

    def on(rec):
        if rec.get("k") == "beh":
            got.setdefault(rec["coin"], sorted(rec["flags"]))
    ctx.tlc("MC_SignerReplay", "MC_SignerReplay_flags", on_record=on, keep_records=False, count=False, timeout=600)
    for coin in drv.COINS:
        if got.get(coin) != sorted(policy_names_for(coin)):
            raise MachineryError("recorder flag set for %s differs from PolicyFlags in Signer.tla: %s" % (coin, got.get(coin)))


def run_traces(ctx):
    import multiprocessing as mp
    q = ctx.quick
    _flags_from_spec(ctx)
    with mp.get_context("fork").Pool(NPROC) as pool:
        repo_res = pool.apply_async(_record_repo, (0,))
        nchunk = 16 if q else 64
        per = 12 if q else 40
        jobs = [(ctx.seed * 1000003 + 5000 + c, per, (not q) or c % 4 == 0) for c in range(nchunk)]
        rnd_traces = [t for part in pool.map(_record_random, jobs, chunksize=1) for t in part]
        repo_traces, ntests, nfail, dropped = repo_res.get()
    repo_traces = [t for t in repo_traces if t["shape"]]
    ctx.log("recorded %d sessions from %d repository tests (%d test failures, %d non-standard sessions dropped), %d seeded random sessions" % (
        len(repo_traces), ntests, nfail, dropped, len(rnd_traces)))
    if len(repo_traces) < 40:
        raise MachineryError("recorder saw only %d signing sessions in the repository's tests" % len(repo_traces))
    ctx.extra["repo_test_sessions"] = len(repo_traces)
    traces = repo_traces + rnd_traces
    rej = validate_traces(ctx, traces)
    ctx.traces += len(traces) - len(rej)
    ctx.case(None, sum(len(t["ev"]) for t in traces))
    ctx.action("trace.events", sum(len(t["ev"]) for t in traces))
    ctx.sample({"trace": {k: v for k, v in rnd_traces[0].items()}})
    if rej:
        bad = [traces[i] for i in rej]
        for t, (j, exp) in zip(bad, _diagnose(ctx, bad)):
            key = _trace_key(t, j, exp)
            ctx.fail(key, "recorded signing session is not a behaviour of Signer.tla (event %d): coin=%s shape=%s event=%s; the specification allows %s" % (
                j, t["coin"], t["shape"], t["ev"][j], exp), {"trace": t, "event": j, "spec": exp})
    # binding self-test: corrupt one logged field of accepted traces
    good = [t for i, t in enumerate(traces) if i not in set(rej) and len(t["ev"]) >= 2 and any(t["ev"][-1]["signed"])
                and t["ev"][-1]["mech"] not in ("edit", "kc_add")]
    if good:
        g = good[0]
        b1 = json.loads(json.dumps(g))
        i = [k for k, s in enumerate(b1["ev"][-1]["signed"]) if s][0]
        b1["ev"][-1]["signed"][i][0][1] ^= 2                    # hash-type byte of one signature
        b2 = json.loads(json.dumps(g))
        b2["ev"][-1]["valid"][0] = not b2["ev"][-1]["valid"][0]
        b3 = json.loads(json.dumps(g))
        b3["ev"][-1]["frame"] = "0" * 16
        r2 = validate_traces(ctx, [g, b1, b2, b3])
        ctx.selftest("trace_rejects_corrupted_field", r2 == [1, 2, 3])


def replay(ctx, obj):
    """./check C05 --replay FILE: re-run the recorded passes on a fresh transaction and print the projections"""
    d = obj.get("detail") or {}
    if "trace" in d:
        coin, shape = d["trace"]["coin"], d["trace"]["shape"]
        acts = d["trace"]["ev"][:d["event"] + 1]
    else:
        coin, shape, acts = d["coin"], d["shape"], d["acts"]
    print("key:", obj["key"])
    print("coin:", coin, "shape:", json.dumps(shape))
    ses = drv.Session(coin, shape)
    bits = drv.flag_bits(policy_names_for(coin))
    for a in acts:
        p = {k: a.get(k, "none" if k == "ic" else None) for k in ("mech", "K", "I", "ht", "scr", "reg", "sec", "fresh", "ic", "field", "pos", "sc", "via")}
        try:
            ses.sign(p)
            exc = None
        except Exception as e:  # noqa
            exc = repr(e)
        pr = [drv.project_input(coin, ses.tx, i, pz, bits) for i, pz in enumerate(ses.puzzles)]
        print("pass", json.dumps(p), "->", "exception " + exc if exc else "",
              json.dumps([{k: x[k] for k in ("signed", "valid", "ok_api", "enc") if k in x} | ({"err": x["err"]} if "err" in x else {}) for x in pr]))
    print("specification:", json.dumps(d.get("allowed_last") or d.get("spec")))
    print("transaction:", ses.tx.as_hex())
    ctx.violations[obj["key"]] = "(replayed)"
