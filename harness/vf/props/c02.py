"""C02 - elliptic-curve arithmetic is the group law on every curve and backend.

1. model:   TLC proves on each toy curve that the formulas of spec/EC.tla form a cyclic group of
            order N (closure, commutativity, associativity over all triples, identity, inverse,
            representative-independence, k*P = iterated addition for k in -2N..2N, N*P = Inf,
            blinding cancels, PointsForX) - MC_EC_*.cfg; and that the polynomial book-keeping of
            spec/ECRegs.tla represents the registers (MC_ECRegs_p43, Sim_ECRegs_p83).
2. replay:  TLC prints complete tables (MC_ECReplay_*.cfg); every entry is executed on pycoin's
            Curve/Point/Generator, each operand also with unreduced coordinates, every blinding factor.
            ECRegs behaviours (tlc -simulate) are executed on pycoin: on a toy curve against the points
            TLC computed, on the production curves simultaneously on every backend and the affine
            reference (vf/refec.py, itself replayed against the TLC tables).
3. traces:  seeded random register programs on larger curves (p=251, thorough: p=1019) are recorded
            from pycoin and validated by TLC against spec/Trace_EC.tla.
"""
from __future__ import annotations

import copy
import hashlib
import json
import os
import random
import tempfile

from ..ctx import REPO, MachineryError
from ..drv import ec as drv
from ..ecutil import CURVES, tlc_many
from ..par import NPROC, pmap
from ..refec import RefCurve

_T = {}      # curve key -> tables (filled before forking workers)
_GEN = {}    # per-process cache of generators


# ----------------------------------------------------------------------------- tables -> pycoin

def _tables(recs):
    t = {"add": {}, "mul": {}, "bgm": {}, "inv": {}}
    for r in recs:
        k = r["k"]
        if k == "curve":
            t["curve"] = r
        elif k == "pfx":
            t["pfx"] = r["res"]
        elif k in ("add", "mul"):
            t[k][r["i"]] = r
        elif k == "bgm":
            t["bgm"][r["b"]] = r
        elif k == "inv":
            t["inv"][r["m"]] = r["tab"]
    c = t["curve"]
    n = c["N"]
    if len(t["add"]) != n or len(t["mul"]) != n or len(t["bgm"]) != n or "pfx" not in t:
        raise MachineryError("incomplete table export for curve p=%s" % c["P"])
    return t


def _gen(ck, blind=None, lift=0):
    key = (ck, blind, lift)
    if key not in _GEN:
        if len(_GEN) > 400:
            _GEN.clear()
        c = _T[ck]["curve"]
        _GEN[key] = drv.toy_generator((c["P"], c["A"], c["B"], tuple(c["G"]), c["N"]), blind, lift)
    return _GEN[key]


def _rel(a, b, negs_a):
    if not a:
        return "inf+Q" if b else "inf+inf"
    if not b:
        return "P+inf"
    if a == b:
        return "P+P"
    if b == negs_a:
        return "P+(-P)"
    return "chord"


def _lc(l):
    return "reduced" if l == (0, 0) else "unreduced"


def _unit(args):
    """one table row executed on pycoin; returns (ncases, classes, fails)"""
    ck, kind, idx, lifts = args
    T = _T[ck]
    c = T["curve"]
    p, n = c["P"], c["N"]
    pts, negs = c["pts"], c["negs"]
    fails, classes = [], set()
    cnt = 0
    try:
        g = _gen(ck, 0)
    except MachineryError:
        raise
    except Exception as e:  # noqa: BLE001  building a Generator on a valid curve IS group arithmetic (raw_mul of the blinding factor)
        return 1, [], [("C02|generator|construction|blind=0|raises=%s" % type(e).__name__,
                        "curve p=%d: Generator(...) with blinding factor 0 raises %r" % (p, e), {"curve": ck, "op": "construct", "blind": 0})]

    def bad(key, what, detail):
        if len(fails) < 6:
            fails.append((key, what, detail))

    if kind == "add":
        row = T["add"][idx]
        a = pts[idx - 1]
        for la in lifts:
            pa = drv.lift_point(g, a, la)
            got = drv.call(lambda: -pa, p)
            cnt += 1
            if got != negs[idx - 1]:
                bad("C02|neg|operand=%s|got=%s" % ("inf" if not a else "point", got if isinstance(got, str) else "wrong"),
                    "-P: curve p=%d P=%s lift=%s expected %s got %s" % (p, a, la, negs[idx - 1], got),
                    {"curve": ck, "op": "neg", "P": a, "lift": la, "expected": negs[idx - 1], "got": got})
            for j in range(1, n + 1):
                b = pts[j - 1]
                rel = _rel(a, b, negs[idx - 1])
                for lb in (lifts if (la == (0, 0) or len(lifts) > 3) else lifts[:1]):
                    pb = drv.lift_point(g, b, lb)
                    want = row["sums"][j - 1]
                    for nm, f in (("add", lambda: g.add(pa, pb)), ("+", lambda: pa + pb)):
                        got = drv.call(f, p)
                        cnt += 1
                        if got != want:
                            bad("C02|add|%s|%s|got=%s" % (rel, _lc(la) + "/" + _lc(lb), got if isinstance(got, str) else "wrong"),
                                "%s: curve p=%d %s%s + %s%s expected %s got %s" % (nm, p, a, la, b, lb, want, got),
                                {"curve": ck, "op": "add", "P": a, "Q": b, "lifts": [la, lb], "expected": want, "got": got})
                    want = row["diffs"][j - 1]
                    got = drv.call(lambda: pa - pb, p)
                    cnt += 1
                    if got != want:
                        bad("C02|sub|rhs=%s|got=%s" % ("inf" if not b else "point", got if isinstance(got, str) else "wrong"),
                            "P - Q: curve p=%d %s%s - %s%s expected %s got %s" % (p, a, la, b, lb, want, got),
                            {"curve": ck, "op": "sub", "P": a, "Q": b, "lifts": [la, lb], "expected": want, "got": got})
                    classes.add((ck, "add", rel, _lc(la), _lc(lb)))
    elif kind == "mul":
        row = T["mul"][idx]
        a = pts[idx - 1]
        ks = row["ks"]
        for la in lifts[:3]:
            pa = drv.lift_point(g, a, la)
            for t, k in enumerate(ks):
                want = row["prods"][t]
                kc = "k<0" if k < 0 else "k=0" if k == 0 else "k<n" if k < n else "k=n" if k == n else "k>n"
                entries = (("multiply", lambda: g.multiply(pa, k)), ("P*k", lambda: pa * k), ("k*P", lambda: k * pa))
                if a:     # the key-agreement entry point: scalar and the coordinate pair of a public point (never infinity)
                    entries += (("shared", lambda: drv.generate_shared_public_key(k, (pa[0], pa[1]), g)),)
                for nm, f in entries:
                    got = drv.call(f, p)
                    cnt += 1
                    if got != want:
                        bad("C02|mul|%s|%s|P=%s|got=%s" % (nm, kc, "inf" if not a else "point", got if isinstance(got, str) else "wrong"),
                            "%s: curve p=%d k=%d P=%s%s expected %s got %s" % (nm, p, k, a, la, want, got),
                            {"curve": ck, "op": "mul", "entry": nm, "P": a, "k": k, "lift": la, "expected": want, "got": got})
                classes.add((ck, "mul", kc, "inf" if not a else "pt", _lc(la)))
        if idx == 2:   # the generator object itself (a Point subclass): negation, subtraction, fixed-base table
            for nm, kk, f, want in (("-G", "C02|neg|operand=generator_object", lambda: -g, negs[1]),
                                    ("G-G", "C02|sub|rhs=generator_object", lambda: g - g, []),
                                    ("2G-G", "C02|sub|rhs=generator_object", lambda: g.add(g, g) - g, pts[1]),
                                    ("G+G", "C02|add|generator_object", lambda: g + g, T["add"][2]["sums"][1]),
                                    ("G-2G", "C02|sub|lhs=generator_object", lambda: g - g.add(g, g), negs[1])):
                got = drv.call(f, p)
                cnt += 1
                if got != want:
                    bad("%s|got=%s" % (kk, got if isinstance(got, str) else "wrong"),
                        "%s with G the Generator object itself: curve p=%d expected %s got %s" % (nm, p, want, got),
                        {"curve": ck, "op": nm, "expected": want, "got": got})
            for t, k in enumerate(ks):
                want = row["prods"][t]
                for nm, f in (("raw_mul", lambda: g.raw_mul(k)), ("multiply|P=generator_object", lambda: g.multiply(g, k))):
                    got = drv.call(f, p)
                    cnt += 1
                    if got != want:
                        bad("C02|%s|got=%s" % (nm, got if isinstance(got, str) else "wrong"),
                            "%s: curve p=%d k=%d expected %s got %s" % (nm, p, k, want, got),
                            {"curve": ck, "op": nm, "k": k, "expected": want, "got": got})
    elif kind == "bgm":
        row = T["bgm"][idx]
        grow = T["mul"][2]
        for lift in (0, 1, 2):
            try:
                gb = _gen(ck, idx, lift)
            except MachineryError:
                raise
            except Exception as e:  # noqa: BLE001  the constructor multiplies G by the blinding factor: a failure is a wrong k*G
                bad("C02|generator|construction|blind=k|raises=%s" % type(e).__name__,
                    "curve p=%d: Generator(...) with blinding factor %d (entropy lift %d) raises %r" % (p, idx, lift, e),
                    {"curve": ck, "op": "construct", "blind": idx, "lift": lift})
                cnt += 1
                continue
            cnt += 1
            if gb._blinding_factor != idx:
                raise MachineryError("could not inject blinding factor %d (got %d)" % (idx, gb._blinding_factor))
            for t, k in enumerate(row["ks"]):
                if lift and (t + idx) % 5:
                    continue         # the other entropy lifts: every 5th scalar (the factor is the same, see the check above)
                want = row["prods"][t]
                if want != grow["prods"][t]:
                    raise MachineryError("spec tables disagree: blinded and plain generator multiple")
                for nm, f in (("G*k", lambda: gb * k), ("k*G", lambda: k * gb)):
                    got = drv.call(f, p)
                    cnt += 1
                    if got != want:
                        bad("C02|blinded_mul|got=%s" % (got if isinstance(got, str) else "wrong"),
                            "%s with blinding factor %d (entropy lift %d): curve p=%d k=%d expected %s got %s" % (nm, idx, lift, p, k, want, got),
                            {"curve": ck, "op": "bgm", "blind": idx, "lift": lift, "k": k, "expected": want, "got": got})
            classes.add((ck, "bgm", idx, lift))
    elif kind == "pfx":
        res = T["pfx"]
        for x in range(p):
            want = res[x]
            try:
                r = g.points_for_x(x)
                got = [drv.proj(r[0], p), drv.proj(r[1], p)] if isinstance(r, tuple) and len(r) == 2 else "bad:" + repr(r)[:40]
                if isinstance(got, list) and (r[0][0] != x or r[1][0] != x):
                    got = "bad:x changed"
            except ValueError:
                got = []
            except Exception as e:
                got = "exc:" + type(e).__name__
            cnt += 1
            classes.add((ck, "pfx", "none" if not want else "two"))
            if got != want:
                bad("C02|points_for_x|expected=%s|got=%s" % ("none" if not want else "two", got if isinstance(got, str) else ("none" if not got else "wrong")),
                    "points_for_x(%d): curve p=%d expected %s got %s" % (x, p, want, got),
                    {"curve": ck, "op": "pfx", "x": x, "expected": want, "got": got})
        # on-curve check at construction: Point(x, y) exists exactly for the affine points
        aff = {tuple(q) for q in pts if q}
        for x in range(p):
            for y in range(p):
                for lf in ((0, 0), (1, -1)):
                    try:
                        g.Point(x + lf[0] * p, y + lf[1] * p)
                        ok = True
                    except drv.NoSuchPointError:
                        ok = False
                    cnt += 1
                    if ok != ((x, y) in aff) or g.contains_point(x + lf[0] * p, y + lf[1] * p) != ((x, y) in aff):
                        bad("C02|on_curve|expected=%s" % ((x, y) in aff),
                            "Point(%d,%d) lift %s on curve p=%d: constructed=%s, on curve per spec=%s" % (x, y, lf, p, ok, (x, y) in aff),
                            {"curve": ck, "op": "oncurve", "x": x, "y": y})
    elif kind == "inv":
        for m, tab in T["inv"].items():
            for a0 in range(1, m + 1):
                want = tab[a0 - 1]
                if want < 0:
                    continue     # no inverse exists: the property says nothing
                for jj in (-2, -1, 0, 1, 2):
                    a = a0 + jj * m
                    try:
                        got = g.inverse_mod(a, m)
                    except Exception as e:
                        got = "exc:" + type(e).__name__
                    cnt += 1
                    if got != want:
                        bad("C02|inverse_mod|%s|got=%s" % ("a<0" if a < 0 else "a>=m" if a >= m else "0<a<m", got if isinstance(got, str) else "wrong"),
                            "inverse_mod(%d, %d) expected %d got %s" % (a, m, want, got), {"op": "inv", "a": a, "m": m, "expected": want, "got": got})
            classes.add((ck, "inv", m))
        tab = T["inv"].get(n)
        if tab:
            for a0 in range(1, n):
                cnt += 1
                if g.inverse(a0) != tab[a0 - 1]:
                    bad("C02|inverse|got=wrong", "inverse(%d) mod n=%d" % (a0, n), {"op": "inverse", "a": a0})
    return cnt, classes, fails


def _ref_unit(args):
    """the affine reference against the same tables (it is a backend on the production curves)"""
    ck = args
    T = _T[ck]
    c = T["curve"]
    ref = RefCurve(c["P"], c["A"], c["B"], c["G"], c["N"])
    pts, n = c["pts"], c["N"]
    tp = [tuple(q) for q in pts]
    bad = 0
    for i in range(1, n + 1):
        ra, rm = T["add"][i], T["mul"][i]
        if list(ref.neg(tp[i - 1])) != c["negs"][i - 1]:
            bad += 1
        for j in range(1, n + 1):
            if list(ref.add(tp[i - 1], tp[j - 1])) != ra["sums"][j - 1]:
                bad += 1
        for t, k in enumerate(rm["ks"]):
            if list(ref.mul(k, tp[i - 1])) != rm["prods"][t]:
                bad += 1
        if not ref.on_curve(tp[i - 1]):
            bad += 1
    return bad


# ----------------------------------------------------------------------------- register machine

B1_PROD = int.from_bytes(hashlib.sha256(b"vf/C02/b1").digest(), "big")
B2_PROD = (1 << 256) - 0x1000003D1 - 12345     # just below secp256k1's p, above both group orders


def _classify_step(a, got, label):
    op = a["op"]
    if isinstance(got, str) and got.startswith("exc:") and "@" in got and op in ("neg", "sub"):
        exc, oc = got.split("@")
        return ("C02|neg|operand=%s|got=%s" if op == "neg" else "C02|sub|rhs=%s|got=%s") % (oc, exc)
    return "C02|regs|op=%s|got=%s|%s" % (op, got if isinstance(got, str) else "wrong", label)


def _check_behaviours(ctx, behs, outs, expected, label, nregs):
    """compare projected destination registers with the expectation after every action"""
    nsteps = 0
    for bi, acts in enumerate(behs):
        regs = {i: [] for i in range(nregs + 1)}
        for si, st in enumerate(acts):
            a = st["a"]
            got = outs[bi][si]
            nsteps += 1
            if a["op"] == "setblind":
                if got != ["blind", True]:
                    ctx.fail("C02|regs|setblind|%s" % label, "could not set blinding factor: %s" % (got,), {"beh": acts[:si + 1]})
                continue
            want = expected[bi][si]
            if got != want:
                ctx.fail(_classify_step(a, got, label), "register machine on %s: step %d %s expected %s got %s" % (label, si, a, want, got),
                         {"backend": label, "behaviour": acts[:si + 1], "expected": want, "got": got})
            regs[a["dst"]] = want
    return nsteps


def _prod_ref_unit(args):
    name, params, behs, B1v, B2v = args
    ref = RefCurve(*params)
    out = []
    for acts in behs:
        row = []
        for st in acts:
            if st["a"]["op"] == "setblind":
                row.append(None)
                continue
            s = drv.poly_eval(st["sc"], B1v, B2v) % ref.n
            pt = ref.mul(s, ref.G)
            row.append(list(pt))
        out.append(row)
    return out


def _prod_ref_walk(args):
    """the reference as a register machine of its own (path-dependent), to be compared with the
    path-independent eval(poly)*G: checks the polynomial book-keeping on the production curves too"""
    name, params, behs, nregs, B1v, B2v = args
    ref = RefCurve(*params)
    bad = 0
    for acts in behs:
        R = [()] * (nregs + 1)
        for st in acts:
            a = st["a"]
            op = a["op"]
            k = a["m"] * ref.n + drv.poly_eval(a["f"], B1v, B2v)
            if op == "setblind":
                continue
            if op in ("load", "genraw", "genblind"):
                r = ref.mul(k, ref.G)
            elif op == "add":
                r = ref.add(R[a["i"]], R[a["j"]])
            elif op == "sub":
                r = ref.add(R[a["i"]], ref.neg(R[a["j"]]))
            elif op == "neg":
                r = ref.neg(R[a["i"]])
            elif op in ("mul", "shared"):
                r = ref.mul(k, R[a["i"]])
            else:
                r = ()
            R[a["dst"]] = r
            s = drv.poly_eval(st["sc"], B1v, B2v) % ref.n
            if r != ref.mul(s, ref.G):
                bad += 1
    return bad


# ----------------------------------------------------------------------------- sessions: several curves in one process

SESSION_TOY = {"c1": "p43", "c2": "p83"}
_SG = {}


def _dehex(a):
    return a if isinstance(a, str) else [_dehex(x) for x in a] if a and isinstance(a[0], list) else [int(x, 16) for x in a]


def _session_chunk(sessions):
    """toy sessions in one (forked) process; the generator objects live as long as the process"""
    if not _SG:
        _SG.update(drv.session_generators(sorted(SESSION_TOY), {k: CURVES[v] for k, v in SESSION_TOY.items()}))
    return drv.run_sessions(_SG, [[x["call"] for x in s] for s in sessions])


def _session_fail(ctx, sess, i, want, got, where):
    c, op, v = sess[i]["call"]
    ctx.fail("C02|session|%s|%s|got=%s" % (op, where, got if isinstance(got, str) and got.startswith("exc:") else "wrong"),
             "%s(%s, %s) in a process that also holds other curves (%s): the answer must be %s whatever was asked before, got %s; session %s" % (
                 op, c, v, where, want, got, [x["call"] for x in sess[:i + 1]]),
             {"session": [x["call"] for x in sess], "index": i, "expected": want, "got": got})


def _session_stage(ctx):
    q = ctx.quick
    # (a) two toy curves sharing x values: every interleaving of depth 3, expected answers from TLC
    r = ctx.tlc("ECSession", "MC_ECSession_toy", workers=4, timeout=900)
    sessions = sorted((x["calls"] for x in r.records if x.get("k") == "session"), key=lambda s: json.dumps(s, sort_keys=True))
    if len(sessions) < 1000:
        raise MachineryError("session enumeration printed %d sessions" % len(sessions))
    random.Random(ctx.seed + 5).shuffle(sessions)
    chunks = [sessions[i:i + 400] for i in range(0, len(sessions), 400)]
    n = 0
    for ch, outs in zip(chunks, pmap(_session_chunk, chunks, chunk=1)):
        for sess, out in zip(ch, outs):
            for i, (x, got) in enumerate(zip(sess, out)):
                n += 1
                if got != x["res"]:
                    _session_fail(ctx, sess, i, x["res"], got, "toy p=43/p=83")
            ctx.case(("session", tuple(tuple(x["call"][:2]) for x in sess)), 0)
    ctx.log("sessions, toy curves p=43 and p=83 in one process: %d sessions, %d calls" % (len(sessions), n))
    # (b) the toy curves together with secp256k1 and secp256r1: answers of the production curves are compared with
    #     what an instance alone in a fresh process gives (the term [iso |-> call] of ECSession.tla)
    r = ctx.tlc("ECSession", "MC_ECSession_mixed", workers=4, timeout=900)
    sessions = sorted((x["calls"] for x in r.records if x.get("k") == "session"), key=lambda s: json.dumps(s, sort_keys=True))
    random.Random(ctx.seed + 6).shuffle(sessions)
    toyp = {k: list(CURVES[v][:3]) + [list(CURVES[v][3]), CURVES[v][4]] for k, v in SESSION_TOY.items()}
    names = sorted(SESSION_TOY) + ["secp256k1", "secp256r1"]
    for native, sel in (("", sessions if not q else sessions[::2]), ("python", sessions[::40] if q else sessions[::8])):
        distinct = sorted({tuple(x["call"]) for s in sel for x in s if x["call"][0] not in SESSION_TOY})
        jobs = [(nm, native, None, {"what": "session", "names": [nm], "toy": {}, "sessions": [[list(c)] for c in distinct if c[0] == nm]})
                for nm in ("secp256k1", "secp256r1")]
        per = max(1, (len(sel) + 7) // 8)
        parts = [sel[i:i + per] for i in range(0, len(sel), per)]
        jobs += [("all", native, part, {"what": "session", "names": names, "toy": toyp, "sessions": [[x["call"] for x in s] for s in part]})
                 for part in parts]
        iso = {}
        results = _run_session_jobs(jobs)
        for (nm, _, part, job), res in results:
            if part is None:
                for sess, out in zip(job["sessions"], res["out"]):
                    iso[tuple(sess[0])] = _dehex(out[0])
        for (nm, _, part, job), res in results:
            if part is None:
                continue
            if native == "python" and set(res["backends"].values()) != {"python"}:
                raise MachineryError("PYCOIN_NATIVE=python did not select the pure-Python backends")
            where = "with secp256k1/secp256r1 (%s)" % (native or res["backends"]["secp256k1"])
            for sess, out in zip(part, res["out"]):
                for i, (x, got) in enumerate(zip(sess, out)):
                    n += 1
                    got = _dehex(got)
                    want = x["res"] if not isinstance(x["res"], dict) else iso[tuple(x["res"]["iso"])]
                    if got != want:
                        _session_fail(ctx, sess, i, want, got, where)
        ctx.log("sessions, toy + production curves in one process (%s): %d sessions" % (native or "default backend", len(sel)))
    ctx.case(None, n)
    ctx.replayed += n
    ctx.action("replay.sessions", n)
    # (c) traces: long random sessions over two curves on the same field, validated by TLC
    cnt, ln = (40, 40) if q else (400, 60)
    traces = pmap(_session_trace_chunk, [(ctx.seed * 31 + i, cnt // 4, ln) for i in range(4)], chunk=1)
    traces = [t for ch in traces for t in ch]
    rej, matched = _validate_sessions(ctx, traces)
    ctx.traces += len(traces) - len(rej)
    ctx.case(None, sum(len(t) for t in traces))
    ctx.action("trace.session_events", sum(len(t) for t in traces))
    for i in rej:
        m = matched.get(i, 0)
        e = traces[i][min(m, len(traces[i]) - 1)]
        ctx.fail("C02|session|%s|trace p=251|got=%s" % (e["op"], "no-answer" if e["note"] else "wrong"),
                 "recorded session over two curves mod 251 is not a behaviour of ECSession.tla: event %d %s" % (m, e),
                 {"trace": traces[i], "event_index": m})
    good = [t for i, t in enumerate(traces) if i not in rej and any(e["op"] == "pfx" and e["res"] for e in t)][:1]
    if good:
        bad = copy.deepcopy(good[0])
        e = next(e for e in bad if e["op"] == "pfx" and e["res"])
        e["res"] = [e["res"][1], e["res"][0]]           # parity order swapped
        rej2, _ = _validate_sessions(ctx, [good[0], bad], log=False)
        ctx.selftest("session_trace_rejects_swapped_points", rej2 == [1])
    ctx.log("session traces p=251 (n=241, n=271): %d recorded, %d rejected by TLC" % (len(traces), len(rej)))


def _run_session_jobs(jobs):
    running, results = [], []
    for j in jobs:
        running.append((j, drv.spawn(j[3], j[1], REPO)))
        if len(running) >= NPROC:
            jj, proc = running.pop(0)
            results.append((jj, drv.finish(proc, jj[3])))
    for jj, proc in running:
        results.append((jj, drv.finish(proc, jj[3])))
    return results


def _session_trace_chunk(args):
    seed, count, ln = args
    rnd = random.Random(seed)
    gens = drv.session_generators(["c1", "c2"], {"c1": CURVES["p251a"], "c2": CURVES["p251b"]})
    out = []
    for t in range(count):
        ev = []
        hot = [rnd.randrange(251) for _ in range(6)]        # a few x values asked of both curves again and again
        for e in range(ln):
            c = rnd.choice(("c1", "c2"))
            op = rnd.choice(("pfx", "pfx", "pfx", "mul", "add"))
            v = (rnd.choice(hot) if rnd.random() < 0.7 else rnd.randrange(251)) if op == "pfx" else rnd.choice((rnd.randrange(-600, 600), rnd.randrange(1 << 30)))
            got = drv.session_call(gens[c], op, v)
            # a call that raised or returned something that is no answer: a value of the right shape that no curve gives
            none = [[-1, -1], [-1, -1]] if op == "pfx" else [-1, -1]
            ev.append({"c": c, "op": op, "v": v, "res": got if isinstance(got, list) else none, "note": got if isinstance(got, str) else ""})
        out.append(ev)
    return out


def _validate_sessions(ctx, traces, log=True):
    fd, path = tempfile.mkstemp(prefix="vf-c02-sess-", suffix=".json")
    with os.fdopen(fd, "w") as f:
        json.dump([[{k: e[k] for k in ("c", "op", "v", "res")} for e in t] for t in traces], f)
    try:
        r = ctx.tlc("Trace_ECSession", "Trace_ECSession_p251", workers=1, env={"TRACE_FILE": path}, count=False, timeout=1500)
    finally:
        os.unlink(path)
    rej = [x for x in r.records if x.get("k") == "rejected"]
    if len(rej) != 1 or rej[0]["n"] != len(traces):
        raise MachineryError("session trace run gave no verdict: %s" % r.raw_tail[-5:])
    return sorted(i - 1 for i in rej[0]["ids"]), {i: m for i, m in enumerate(rej[0]["matched"]) if m >= 0}


# ----------------------------------------------------------------------------- traces

def _record_traces(ck, seed, count, nev, nregs=5):
    cur = CURVES[ck]
    p, a_, b_, G, n = cur
    rnd = random.Random(seed)
    g0 = drv.toy_generator(cur, 0)
    Gpt = g0.Point(*G)
    traces = []
    for t in range(count):
        R = [None] + [g0.infinity()] * nregs
        ev = []

        def rk():
            c = rnd.random()
            if c < 0.3:
                return rnd.randint(-5, 5)
            if c < 0.55:
                return rnd.choice((-2, -1, 1, 2, 3)) * n + rnd.randint(-2, 2)
            if c < 0.8:
                return rnd.randint(-3 * n, 3 * n)
            return rnd.randint(-(1 << 30), 1 << 30)
        for e in range(nev):
            if e < nregs:
                op, dst = rnd.choice(("load", "genraw", "genblind")), e + 1
            else:
                op = rnd.choice(("load", "genraw", "genblind", "add", "add", "sub", "sub", "neg", "mul", "mul", "shared", "clear", "pfx", "add"))
                if op == "clear" and rnd.random() < 0.7:
                    op = "add"
                dst = rnd.randint(1, nregs)
            i, j, k, b = rnd.randint(1, nregs), rnd.randint(1, nregs), rk(), rnd.randrange(n)
            if rnd.random() < 0.15:
                j = i
            if op == "shared" and R[i][0] is None:
                op = "mul"          # the other party's public point is never infinity
            rec = {"op": op, "i": i, "j": j, "dst": dst, "k": k, "b": b}
            try:
                if op == "pfx":
                    k = rec["k"] = rnd.randrange(p)
                    try:
                        r = g0.points_for_x(k)
                        rec["res"] = [drv.proj(r[0], p), drv.proj(r[1], p)]
                    except ValueError:
                        rec["res"] = []
                    ev.append(rec)
                    continue
                if op == "load":
                    r = g0.multiply(Gpt, k) if e % 2 else k * Gpt
                elif op == "genraw":
                    r = g0.raw_mul(k)
                elif op == "genblind":
                    gb = drv.toy_generator(cur, b, rnd.choice((0, 1, 2)))
                    r = gb * k if e % 2 else k * gb
                elif op == "add":
                    r = R[i] + R[j]
                elif op == "sub":
                    r = R[i] - R[j]
                elif op == "neg":
                    r = -R[i]
                elif op == "mul":
                    r = R[i] * k if e % 2 else k * R[i]
                elif op == "shared":
                    r = drv.generate_shared_public_key(k, (R[i][0], R[i][1]), g0)
                else:
                    r = g0.infinity()
                pr = drv.proj(r, p)
            except Exception as ex:
                pr = "exc:" + type(ex).__name__
            if not isinstance(pr, list):
                rec["res"] = [-1, -1]
                rec["exc"] = pr
                rec["operand"] = drv.operand_class(R[i]) if op == "neg" else drv.operand_class(R[j]) if op == "sub" else ""
                if len(ev) >= 3:
                    traces.append(list(ev))      # the calls before the failing one form a trace of their own
                ev.append(rec)
                break       # nothing after a failed call can be attributed
            rec["res"] = pr
            R[dst] = r
            ev.append(rec)
        traces.append(ev)
    return traces


def _validate_many(ctx, jobs):
    """jobs: [(curve key, traces)]; the TLC runs (single-threaded each) go concurrently.
    Returns per job (rejected indices, {index: events matched})"""
    paths = []
    for ck, traces in jobs:
        fd, path = tempfile.mkstemp(prefix="vf-c02-traces-", suffix=".json")
        with os.fdopen(fd, "w") as f:
            json.dump([[{k: v for k, v in e.items() if k in ("op", "i", "j", "dst", "k", "b", "res")} for e in tr] for tr in traces], f)
        paths.append(path)
    try:
        rs = tlc_many(ctx, [dict(module="Trace_EC", cfg="Trace_EC_" + ck, workers=1, env={"TRACE_FILE": p}, count=False, timeout=3000)
                            for (ck, _), p in zip(jobs, paths)], threads=6)
    finally:
        for p in paths:
            os.unlink(p)
    out = []
    for (ck, traces), r in zip(jobs, rs):
        rej = [x for x in r.records if x.get("k") == "rejected"]
        if len(rej) != 1 or rej[0]["n"] != len(traces):
            raise MachineryError("trace run gave no verdict: %s" % r.raw_tail[-5:])
        out.append((sorted(i - 1 for i in rej[0]["ids"]), {i: m for i, m in enumerate(rej[0]["matched"]) if m >= 0}))
    return out


def _validate(ctx, ck, traces):
    (rej, matched), = _validate_many(ctx, [(ck, traces)])
    return rej


def _rec_unit(args):
    ck, seed, count, nev = args
    return ck, _record_traces(ck, seed, count, nev)


# ----------------------------------------------------------------------------- run

def _count_sim(ctx, r):
    """tlc -simulate reports 'The number of states generated: N' (no distinct-state count)"""
    import re
    for line in r.raw_tail:
        m = re.match(r"The number of states generated: (\d+)", line)
        if m:
            ctx.states += int(m.group(1))
            ctx.transitions += int(m.group(1))
            ctx.tlc_runs[-1]["simulated_states"] = int(m.group(1))


def _stage(ctx, name):
    only = getattr(ctx, "only", None)
    return only is None or name in only


def run(ctx):
    q = ctx.quick
    ctx.rule = ("distinct_nontrivial = distinct (curve, operation, operand-relation class {inf+Q, P+inf, P+P, P+(-P), chord}, "
                "reduced/unreduced presentation) for additions; (curve, scalar class {k<0, 0, <n, =n, >n}, operand, presentation) for "
                "multiplications; (curve, blinding factor, entropy lift); (curve, modulus) for inverses; plus one per register-machine behaviour")
    ctx.assumptions += [
        "TLC/SANY, CPython big integers; toy curves are cyclic of odd prime order with p = 3 mod 4 (checked by TLC: lemma Cyclic)",
        "256-bit fields cannot enter TLC (L1): on secp256k1/secp256r1/BLS12-381 G1 the evidence is that the same Python code runs the toy "
        "curves exhaustively, plus differential register-machine behaviours against the affine reference (itself replayed against TLC's tables)",
        "libsecp256k1 is not installed in this sandbox: that backend is not exercised (L3)",
        "results are compared as field elements (coordinates mod p): pycoin returns an unreduced operand unchanged for P + Inf, 1*P",
    ]
    model_curves = ["p11", "p43", "p83"] if q else ["p11", "p43", "p67", "p79", "p83", "p103"]

    # ---- 1. model
    if _stage(ctx, "model"):
        jobs = [dict(module="MC_EC", cfg="MC_EC_" + c, workers=4 if q else 8, timeout=2400, coverage=False) for c in model_curves]
        jobs += [dict(module="MC_EC", cfg="MC_EC_" + c, workers=2, timeout=2400) for c in (["p251a_q", "p251b_q"] if q else ["p251a", "p251b", "p1019_q"])]
        jobs.append(dict(module="ECRegs", cfg="MC_ECRegs_p43", workers=4, timeout=1200))
        tlc_many(ctx, jobs, threads=4 if q else 3)

    # ---- 2. tables
    if _stage(ctx, "tables") or _stage(ctx, "ref") or _stage(ctx, "selftest"):
        rs = tlc_many(ctx, [dict(module="MC_ECReplay", cfg="MC_ECReplay_" + c, workers=4, timeout=1200) for c in model_curves], threads=4)
        for c, r in zip(model_curves, rs):
            _T[c] = _tables(r.records)
            cur = _T[c]["curve"]
            if (cur["P"], cur["A"], cur["B"], tuple(cur["G"]), cur["N"]) != CURVES[c]:
                raise MachineryError("curve catalogue and cfg disagree for " + c)
    if _stage(ctx, "tables"):
        units = []
        for c in model_curves:
            n = _T[c]["curve"]["N"]
            lifts = drv.LIFTS9 if n <= 31 else drv.LIFTS3
            units += [(c, "add", i, lifts) for i in range(1, n + 1)]
            units += [(c, "mul", i, lifts) for i in range(1, n + 1)]
            units += [(c, "bgm", b, None) for b in range(n)]
            units += [(c, "pfx", 0, None), (c, "inv", 0, None)]
        rnd = random.Random(ctx.seed)
        rnd.shuffle(units)     # balance the chunks (deterministic)
        res = pmap(_unit, units, chunk=8)
        total = 0
        for (c, kind, idx, _), (cnt, classes, fails) in zip(units, res):
            total += cnt
            ctx.case(None, cnt)
            ctx.action("replay." + kind, cnt)
            for cl in classes:
                ctx.case(cl, 0)
            for key, what, detail in fails:
                ctx.fail(key, what, detail)
        ctx.replayed += total
        ctx.log("tables: %d table entries executed on pycoin (%d rows, curves %s)" % (total, len(units), model_curves))
        c0 = model_curves[1]
        ctx.sample({"table_row": {"curve": c0, "add_row_of_G": _T[c0]["add"][2]["sums"][:6], "mul_row_of_G_k": _T[c0]["mul"][2]["ks"][:6],
                                  "prods": _T[c0]["mul"][2]["prods"][:6]}})

    # ---- 3. the reference against the same tables (R2: before it judges pycoin on the production curves)
    if _stage(ctx, "ref"):
        badref = sum(pmap(_ref_unit, model_curves, chunk=1))
        if badref:
            raise MachineryError("vf/refec.py disagrees with the tables of EC.tla in %d entries" % badref)
        ctx.selftest("reference_matches_EC_tla_tables", True)

    # ---- 4. register machine
    if _stage(ctx, "regs"):
        # 4a. toy curve, Concrete: expected coordinates come from TLC
        nsim = 40 if q else 400
        r = ctx.tlc("ECRegs", "Sim_ECRegs_p83", workers=4, simulate="num=%d" % nsim, depth=40, seed=ctx.seed + 1, timeout=1200)
        _count_sim(ctx, r)
        behs = [x["acts"] for x in r.records if x.get("k") == "beh"]
        if len(behs) < nsim:
            raise MachineryError("simulation printed %d behaviours" % len(behs))
        g = drv.toy_generator(CURVES["p83"], 0)
        exp = [[None if st["a"]["op"] == "setblind" else st["pt"] for st in acts] for acts in behs]
        outs = drv.run_behaviours(g, behs, 3, 45, 78, lambda bi, si: exp[bi][si])
        ns = _check_behaviours(ctx, behs, outs, exp, "toy-p83", 3)
        ctx.case(None, ns)
        ctx.replayed += ns
        ctx.action("replay.regs_toy", ns)
        for acts in behs:
            ctx.case(("beh", hashlib.blake2b(json.dumps(acts, sort_keys=True).encode(), digest_size=8).hexdigest()), 0)
        ctx.log("register machine, toy p=83: %d behaviours, %d steps compared with the points TLC computed" % (len(behs), ns))
        # 4b. production curves, symbolic
        nsim = 3 if q else 40
        r = ctx.tlc("ECRegs", "Sim_ECRegs", workers=4, simulate="num=%d" % nsim, depth=40, seed=ctx.seed + 2, timeout=1200)
        _count_sim(ctx, r)
        behs = [x["acts"] for x in r.records if x.get("k") == "beh"]
        ctx.sample({"register_behaviour": behs[0][:5]})
        _production(ctx, behs, 4)
        # the same behaviours on user-constructed curves wider than 256 bits (generic pure-Python Generator)
        _production(ctx, behs[:6] if q else behs[:60], 4, WIDE_BACKENDS, B1_WIDE + 12345, B2_WIDE - 1, "random behaviours, wide curves", per=1 if q else 3)
        # 4c. scalar classes, enumerated by TLC (MC_ECScalarClasses), two families:
        #     "wide": b1 = 2^256, b2 = 2^300 on the wide curves and the production curves
        #     "word": b1 = 2^32, b2 = 2^63 (edges of machine words) on every production backend
        word_backends = [("secp256k1", ""), ("secp256r1", ""), ("secp256k1", "python")] if q else BACKENDS
        for cfg, floor, backends, b1v, b2v, what, per in (
                ("MC_ECScalarClasses", 100, WIDE_BACKENDS + (BACKENDS[1:2] if q else BACKENDS), B1_WIDE, B2_WIDE, "scalar classes across 2^256", 9),
                ("MC_ECScalarClasses_word", 200, word_backends, B1_WORD, B2_WORD, "scalar classes at machine-word edges", 24)):
            ctx.tlc("MC_ECScalarClasses", cfg + "_p43", workers=2, timeout=600)
            r = ctx.tlc("MC_ECScalarClasses", cfg, workers=2, timeout=600)
            cbehs = sorted((x["acts"] for x in r.records if x.get("k") == "beh"), key=lambda a: json.dumps(a, sort_keys=True))
            if len(cbehs) < floor or not all(any(acts[-1]["a"]["op"] == op for acts in cbehs) for op in ("load", "genraw", "genblind", "mul", "shared")):
                raise MachineryError("scalar-class enumeration %s printed %d behaviours / not every entry point" % (cfg, len(cbehs)))
            _production(ctx, cbehs, 2, backends, b1v, b2v, what, per=per)

    # ---- 4d. several curves in one process (ECSession.tla)
    if _stage(ctx, "session"):
        _session_stage(ctx)

    # ---- 5. traces
    if _stage(ctx, "traces"):
        plan = [("p251a", 150, 40), ("p251b", 150, 40)] if q else [("p251a", 1500, 40), ("p251b", 1500, 40), ("p1019", 300, 60)]
        first = None
        recorded = pmap(_rec_unit, [(ck, ctx.seed * 1000003 + len(ck) * 7 + cnt + 31 * part, min(300, cnt - 300 * part), nev)
                                    for ck, cnt, nev in plan for part in range((cnt + 299) // 300)], chunk=1)
        verdicts = _validate_many(ctx, recorded)
        for (ck, traces), (rej, matched) in zip(recorded, verdicts):
            ctx.traces += len(traces) - len(rej)
            ctx.case(None, sum(len(t) for t in traces))
            ctx.action("trace.events", sum(len(t) for t in traces))
            if first is None:
                first = (ck, traces)
                ctx.sample({"trace": {"curve": ck, "events": traces[0][:4]}})
            for i in rej:
                m = matched.get(i, 0)
                last = traces[i][min(m, len(traces[i]) - 1)]       # the first event TLC could not match
                if "exc" in last and last["op"] in ("neg", "sub"):
                    key = ("C02|neg|operand=%s|got=%s" if last["op"] == "neg" else "C02|sub|rhs=%s|got=%s") % (last["operand"], last["exc"])
                elif "exc" in last:
                    key = "C02|trace|op=%s|got=%s" % (last["op"], last["exc"])
                else:
                    key = "C02|trace|op=%s|got=wrong" % last["op"]
                ctx.fail(key, "recorded run on curve %s is not a behaviour of EC.tla: event %d is the first TLC cannot match: %s" % (ck, m, last),
                         {"curve": ck, "event_index": m, "trace": traces[i]})
            ctx.log("traces %s: %d recorded, %d rejected by TLC" % (ck, len(traces), len(rej)))
        # binding self-test: one corrupted coordinate must be rejected, its neighbours accepted
        ck, traces = first
        good = [t for t in traces if len(t) >= 10 and "exc" not in t[-1]][:2]
        if len(good) == 2:
            bad = copy.deepcopy(good[0])
            e = next(e for e in bad if e["op"] != "pfx" and e["res"])
            e["res"] = [e["res"][0], (e["res"][1] + 1) % CURVES[ck][0]]
            rej = _validate(ctx, ck, [good[0], bad, good[1]])
            ctx.selftest("trace_rejects_corrupted_field", rej == [1])

    # ---- 6. replay self-test: a corrupted expectation must be noticed
    if _stage(ctx, "selftest") or _stage(ctx, "tables"):
        c = model_curves[0]
        keep = _T[c]
        _T[c] = copy.deepcopy(keep)
        row = _T[c]["add"][3]["sums"]
        row[4] = [row[4][0], (row[4][1] + 1) % _T[c]["curve"]["P"]] if row[4] else [0, 0]
        _GEN.clear()
        cnt, classes, fails = _unit((c, "add", 3, drv.LIFTS3))
        _T[c] = keep
        ctx.selftest("replay_rejects_corrupted_expectation", any(k.startswith("C02|add|") for k, _, _ in fails))
    ctx.exhaustive = False
    ctx.extra["exhaustive_within"] = "every point / pair / triple / table entry of the toy curves named in tlc_runs; sampled on 256-bit and 381-bit curves (L1)"


B1_WIDE, B2_WIDE = 1 << 256, 1 << 300      # concretization of the symbols for MC_ECScalarClasses (and the wide curves)
B1_WORD, B2_WORD = 1 << 32, 1 << 63        # ... for its family "word"
BACKENDS = [("secp256k1", "python"), ("secp256k1", ""), ("secp256r1", "python"), ("secp256r1", ""), ("bls12_381_g1", "python")]
WIDE_BACKENDS = [("secp384r1", "python"), ("secp521r1", "python")]


def _curve_params():
    from pycoin.ecdsa import secp256k1 as k1, secp256r1 as r1, bls12_381_g1 as bls
    params = {
        "secp256k1": (k1._p, k1._a, k1._b, (k1._Gx, k1._Gy), k1._r),
        "secp256r1": (r1._p, r1._a, r1._b, (r1._Gx, r1._Gy), r1._r),
        "bls12_381_g1": (bls._p, bls._a, bls._b, (bls._Gx, bls._Gy), bls._r),
    }
    for name, pr in drv.WIDE_CURVES.items():
        p, a, b, G, n = pr
        ref = RefCurve(p, a, b, G, 1 << 600)       # modulus of the scalar deliberately too large: no reduction
        if p % 4 != 3 or not ref.on_curve(G) or ref.mul(n, G) != () or pow(2, n - 1, n) != 1 or pow(3, n - 1, n) != 1:
            raise MachineryError("parameters of %s in vf/drv/ec.py are not a prime-order curve with p = 3 mod 4" % name)
        params[name] = pr
    return params


def _production(ctx, behs, nregs, backends=None, B1v=None, B2v=None, what="random behaviours", per=3):
    backends = backends or BACKENDS
    B1v = B1_PROD if B1v is None else B1v
    B2v = B2_PROD if B2v is None else B2v
    allparams = _curve_params()
    params = {name: allparams[name] for name, _ in backends}
    chunks = [behs[i:i + per] for i in range(0, len(behs), per)]
    # expectation eval(poly)*G from the reference; and the reference walking the program step by step
    exp = {}
    for name, pr in params.items():
        rows = pmap(_prod_ref_unit, [(name, pr, ch, B1v, B2v) for ch in chunks], chunk=1)
        exp[name] = [row for ch in rows for row in ch]
        bad = sum(pmap(_prod_ref_walk, [(name, pr, ch, nregs, B1v, B2v) for ch in chunks], chunk=1))
        if bad:
            raise MachineryError("reference register walk disagrees with the polynomial value in %d steps on %s "
                                 "(polynomial book-keeping of ECRegs.tla or vf/refec.py is wrong)" % (bad, name))
    jobs = []
    for name, native in backends:
        for ci, ch in enumerate(chunks):
            off = ci * per
            e = [[None if v is None else [hex(t) for t in v] for v in row] for row in exp[name][off:off + len(ch)]]
            jobs.append((name, native, off, ch, {"what": "regs", "curve": name, "behs": ch, "nregs": nregs,
                                                 "B1": hex(B1v), "B2": hex(B2v), "expected": e}))
    running, results = [], []
    seen_backend = {}
    it = iter(jobs)
    pending = True
    while pending or running:
        while pending and len(running) < NPROC:
            try:
                j = next(it)
            except StopIteration:
                pending = False
                break
            running.append((j, drv.spawn(j[4], j[1], REPO)))
        j, proc = running.pop(0)
        res = drv.finish(proc, j[4])
        results.append((j, res))
    total = 0
    for (name, native, off, ch, _), res in results:
        label = "%s/%s" % (name, res["backend"])
        seen_backend.setdefault((name, native), res["backend"])
        if native == "python" and res["backend"] != "python":
            raise MachineryError("PYCOIN_NATIVE=python did not select the pure-Python backend for " + name)
        outs = [[[int(v, 16) for v in pr] if isinstance(pr, list) and (not pr or pr[0] != "blind") else pr for pr in beh] for beh in res["out"]]
        total += _check_behaviours(ctx, ch, outs, exp[name][off:off + len(ch)], label, nregs)
    ctx.case(None, total)
    ctx.replayed += total
    ctx.action("replay.regs_production", total)
    for acts in behs:
        ctx.case(("pbeh", hashlib.blake2b(json.dumps(acts, sort_keys=True).encode(), digest_size=8).hexdigest()), 0)
    ctx.extra["backends_exercised"] = sorted(set(ctx.extra.get("backends_exercised", [])) | {"%s:%s" % (k[0], v) for k, v in seen_backend.items()})
    if "openssl" not in seen_backend.values() and any(n == "" for _, n in backends):
        ctx.assumptions.append("libcrypto not loadable here: the OpenSSL backend was NOT exercised")
    ctx.log("register machine, %s: %d behaviours x %s: %d steps, every backend equal to eval(poly)*G of the reference" % (
        what, len(behs), sorted("%s:%s" % (k[0], v) for k, v in seen_backend.items()), total))


# ----------------------------------------------------------------------------- single-case replay

def replay(ctx, obj):
    """./check C02 --replay FILE: re-execute the recorded failing case on the current tree.  The expected value is
    the one TLC printed when the case was recorded (stored in the file)."""
    d = obj.get("detail") or {}
    print(json.dumps({k: v for k, v in obj.items() if k != "detail"}, indent=1))
    ck = d.get("curve")
    if ck in CURVES and "op" in d and "expected" in d:
        g = drv.toy_generator(CURVES[ck], d.get("blind", 0), d.get("lift", 0) if isinstance(d.get("lift"), int) else 0)
        p = CURVES[ck][0]
        lifts = d.get("lifts") or [d.get("lift") if isinstance(d.get("lift"), list) else [0, 0]] * 2
        P = drv.lift_point(g, d["P"], tuple(lifts[0])) if "P" in d else None
        Q = drv.lift_point(g, d["Q"], tuple(lifts[1])) if "Q" in d else None
        op, k = d["op"], d.get("k")
        mul = {"P*k": lambda: P * k, "k*P": lambda: k * P,
               "shared": lambda: drv.generate_shared_public_key(k, (P[0], P[1]), g)}.get(d.get("entry"), lambda: g.multiply(P, k))
        f = {"add": lambda: P + Q, "sub": lambda: P - Q, "neg": lambda: -P, "mul": mul,
             "bgm": lambda: g * k, "raw_mul": lambda: g.raw_mul(k), "multiply|P=generator_object": lambda: g.multiply(g, k),
             "-G": lambda: -g, "G-G": lambda: g - g, "2G-G": lambda: g.add(g, g) - g}.get(op)
        if f is not None:
            got = drv.call(f, p)
            print("re-executed %s on curve %s: expected %s, now %s" % (op, ck, d["expected"], got))
            if got != d["expected"]:
                ctx.fail(obj["key"], obj["what"], d)
            return
    if "behaviour" in d and d.get("backend", "").startswith("toy-"):
        ck = d["backend"][4:]
        g = drv.toy_generator(CURVES[ck], 0)
        outs = drv.run_behaviours(g, [d["behaviour"]], 3, 45, 78)
        got = outs[0][-1]
        print("re-executed the behaviour on %s: last step expected %s, now %s" % (ck, d["expected"], got))
        if got != d["expected"]:
            ctx.fail(obj["key"], obj["what"], d)
        return
    if "trace" in d and ck in CURVES:
        rej = _validate(ctx, ck, [d["trace"]])
        print("the recorded trace is %s by Trace_EC (this validates the stored log, it does not re-run pycoin)" % ("rejected" if rej else "accepted"))
        if rej:
            ctx.fail(obj["key"], obj["what"], d)
        return
    print(json.dumps(d, indent=1)[:4000])
    print("(no single-case replayer for this record kind; the record above is the failing case)")
