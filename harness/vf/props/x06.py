"""X06 - local stores never hand back something other than what was asked for: the transaction cache (TxDb,
with the consumers that fill in spent outputs from it, and the environment / provider configuration that builds
it) and the keychain (Keychain over SQLite), under every history of operations.

Stages (./check X06 --only a,b,..):
  blobs     X06_MC_Blobs: the transactions and the bytes of every blob class (TxWire), each judged by TxParse
  smodel    X06_MC_TxStore model runs: the property holds for the rule; every named deviation / mutation breaks it
  sprobe    which named deviations does the tree under test have (they are findings)
  sreplay   every behaviour TLC prints, executed on a real TxDb over real directories, compared after every step
  straces   seeded longer histories recorded from the real code, validated by TLC (X06_Trace_TxStore)
  keys      X06_MC_Keys: BIP32 terms of every key of the world, finished by the stdlib evaluator; roots cross-checked
  kmodel    X06_MC_Keychain model runs
  kreplay   every printed keychain behaviour on a real Keychain (SQLite file and in-memory)
  ktraces   seeded longer keychain histories validated by TLC (X06_Trace_Keychain)
  config    X06_MC_Config: environment / provider descriptors / thread-local defaults -> the layers of the store
  selftest  binding self-tests
"""
from __future__ import annotations

import json
import os
import random
import shutil
import time

from ..ctx import MachineryError, ROOT
from .. import tlc as _tlc
from ..drv import txwire
from ..drv import x06_store as sdrv
from ..drv import x06_keychain as kdrv
from ..drv import x06_config as cdrv
from ..par import NPROC, pmap, split

PID = "X06"
WORKERS = int(os.environ.get("X06_WORKERS", "16"))


class Findings(object):
    """ctx only reads the main findings files: keys listed as known in ext/X06_findings.json are reported as
    KNOWN-FINDING and do not fail the run"""

    def __init__(self, ctx):
        self.ctx = ctx
        self.known = {}
        path = os.path.join(ROOT, "ext", "X06_findings.json")
        if os.path.exists(path):
            for e in json.load(open(path))["findings"]:
                if e.get("property") == PID and e.get("status") == "known":
                    self.known[e["key"]] = e

    def fail(self, key, what, detail=None):
        if key in self.known:
            if key not in self.ctx.known_seen:
                self.ctx.known_seen[key] = what
                print("KNOWN-FINDING: property=%s %s [%s]" % (PID, self.known[key].get("what", what), key), flush=True)
            return False
        return self.ctx.fail(key, what, detail)


class Background(object):
    """model runs (TLC checking the specs' own lemmas) go on in the background while the replays use the cores;
    results are booked into ctx by the main thread exactly as ctx.tlc would"""

    def __init__(self, ctx, slots=2):
        import threading
        self.ctx = ctx
        self.sem = threading.Semaphore(slots)
        self.xsem = threading.Semaphore(2)
        self.jobs = []
        self.threading = threading

    def start(self, module, cfg, expect=None, workers=4, timeout=3000):
        job = {"module": module, "cfg": cfg, "expect": expect, "res": None, "err": None}

        def work():
            with self.sem:
                try:
                    job["res"] = _tlc.run(module, cfg, workers=workers, timeout=timeout, keep_records=False)
                except Exception as e:                  # noqa
                    job["err"] = e
        job["th"] = self.threading.Thread(target=work)
        job["th"].daemon = True
        job["th"].start()
        self.jobs.append(job)

    def export(self, module, cfg, env=None, workers=None):
        """an export run started ahead of time; wait() hands back (result, records by kind)"""
        job = {"module": module, "cfg": cfg, "res": None, "err": None, "recs": {}}

        def on(rec):
            job["recs"].setdefault(rec.get("k"), []).append(rec)

        def work():
            with self.xsem:
                try:
                    job["res"] = _tlc.run(module, cfg, workers=workers or WORKERS, timeout=3000, keep_records=False, on_record=on, env=env)
                except Exception as e:                  # noqa
                    job["err"] = e
        job["th"] = self.threading.Thread(target=work)
        job["th"].daemon = True
        job["th"].start()
        return job

    def wait(self, job):
        ctx = self.ctx
        job["th"].join()
        if job["err"] is not None:
            raise job["err"]
        r = job["res"]
        ctx.states += r.distinct
        ctx.transitions += r.generated
        ctx.tlc_runs.append({"module": job["module"], "cfg": job["cfg"], "states": r.distinct, "transitions": r.generated,
                             "depth": r.depth, "wall_s": round(r.wall_s, 1), "ok": r.ok, "violated": r.violated})
        ctx.log("TLC %s/%s: %d distinct states, %d transitions, depth %d, %.1fs%s" % (
            job["module"], job["cfg"], r.distinct, r.generated, r.depth, r.wall_s, "" if r.ok else " VIOLATED " + str(r.violated)))
        if not r.ok:
            raise MachineryError("TLC run %s/%s expected to pass but %s violated:\n%s" % (job["module"], job["cfg"], r.violated, r.error_text[:3000]))
        return r, job["recs"]

    def finish(self):
        ctx = self.ctx
        for job in self.jobs:
            job["th"].join()
            if job["err"] is not None:
                raise job["err"]
            r, module, cfg = job["res"], job["module"], job["cfg"]
            if job["expect"] is None:
                ctx.states += r.distinct
                ctx.transitions += r.generated
            ctx.tlc_runs.append({"module": module, "cfg": cfg, "states": r.distinct, "transitions": r.generated, "depth": r.depth,
                                 "wall_s": round(r.wall_s, 1), "ok": r.ok, "violated": r.violated})
            ctx.log("TLC %s/%s: %d distinct states, %d transitions, depth %d, %.1fs%s" % (
                module, cfg, r.distinct, r.generated, r.depth, r.wall_s, "" if r.ok else " VIOLATED " + str(r.violated)))
            if job["expect"] is None:
                if not r.ok:
                    raise MachineryError("TLC run %s/%s expected to pass but %s violated:\n%s" % (module, cfg, r.violated, r.error_text[:3000]))
            else:
                if r.ok or r.violated != job["expect"]:
                    raise MachineryError("%s should violate %s, TLC says %s" % (cfg, job["expect"], r.violated))
                ctx.selftest("model-%s-violates-%s" % (cfg.split("_MC_")[-1], job["expect"]), True)
        self.jobs = []


def want(ctx, stage):
    return ctx.only is None or stage in ctx.only


def btc_tx():
    from pycoin.symbols.btc import network
    return network.tx


# ================================================================ (1) the transaction store

DEV_FINDING = {
    "badfile": ("X06|TxDb.get|unparsable-file-in-a-scanned-directory|raises",
                "TxDb.get(id) raises (struct.error / TypeError / ...) instead of skipping the file when a directory it "
                "scans holds a file named after the id that is not a transaction (truncated by an interrupted write, "
                "empty, garbage): later layers and the lookup methods are never consulted, the id stays unusable"),
    "oob": ("X06|validate_unspents|index=number-of-outputs|raises=IndexError",
            "Tx.validate_unspents(db): an input whose index equals the number of outputs of the referenced transaction "
            "escapes as IndexError (the bound check uses '>'), not as the documented BadSpendableError"),
}


def load_universe(ctx):
    r = ctx.tlc("X06_MC_Blobs", "X06_MC_Blobs", workers=2, timeout=300)
    univ = sdrv.Universe(r.records)
    n = sum(len(v) for v in univ.blob.values())
    if len(univ.txp) != 3 or n < 30:
        raise MachineryError("X06_MC_Blobs printed %d transactions / %d blobs" % (len(univ.txp), n))
    bad = univ.check()
    if bad:
        raise MachineryError("universe inconsistent with the spec's Amt: " + bad)
    # R2: the parser verdict TLC printed per class is what the store model assumes (ClassOk is TLC's own invariant);
    # cross-check the id terms against hashlib on the printed stripped bytes
    for (c, t), vs in univ.blob.items():
        for b in vs:
            ctx.case(("blob", c, t))
    ctx.log("universe: %d transactions, %d blobs in %d classes" % (len(univ.txp), n, len(univ.blob)))
    return univ


def check_universe_on_pycoin(ctx, fnd, univ):
    """the concretisation itself: pycoin's objects built from the printed transactions have the printed ids and
    serialise to the printed bytes (this is C07's subject; a difference here would make every later verdict moot)"""
    Tx = btc_tx()
    ok = True
    for t, p in univ.txp.items():
        tx = txwire.build_tx(Tx, p)
        if tx.hash() != univ.txid[t]:
            fnd.fail("X06|universe|tx-hash-differs-from-TxWire-id", "Tx.hash() of transaction %d differs from TxId" % t, {"t": t})
            ok = False
        if tx.as_bin() != univ.blob[("full", t)][0]:
            fnd.fail("X06|universe|tx-bytes-differ-from-TxWire", "as_bin() of transaction %d differs from Wire" % t, {"t": t})
            ok = False
        ctx.case(("universe", t))
    return ok


def probe_deviations(ctx, fnd, univ):
    """scripted runs of the real TxDb: which named deviations does this tree have"""
    Tx = btc_tx()
    sw = {"badfile": False, "oob": False}
    raised = []
    for k, letter in enumerate(("t1", "e", "j", "t2")):
        st = sdrv.Store(univ, Tx, {"nro": 0, "w": True, "nl": 1}, [["f1", "f2", "f3"]], "probe-%d-%d" % (os.getpid(), k), salt=k)
        try:
            i = 2 if letter == "t2" else 1
            st.plant(1, i, letter)
            o = st.get(i)
            raised.append(o["res"] == "raise")
        finally:
            st.close()
    if all(raised):
        sw["badfile"] = True
    st = sdrv.Store(univ, Tx, {"nro": 0, "w": True, "nl": 0}, [], "probe-%d-v" % os.getpid())
    try:
        st.plant(1, 2, "f2")
        o = st.validate({"ins": [{"t": 2, "x": 2, "cl": "right"}], "out": 10})
        o2 = st.validate({"ins": [{"t": 2, "x": 3, "cl": "right"}], "out": 10})
        if o["res"] == "indexerror" and o2["res"] == "badspendable":
            sw["oob"] = True
    finally:
        st.close()
    for k, on in sw.items():
        if on:
            fnd.fail(DEV_FINDING[k][0], DEV_FINDING[k][1], {"probe": k})
    ctx.extra["store_deviations"] = {k: bool(v) for k, v in sw.items()}
    ctx.log("store deviations of this tree:", sw)
    return sw


_G = {}


def _store_chunk(args):
    lo, hi, salt = args
    univ, recs, spenders = _G["univ"], _G["recs"], _G["spenders"]
    Tx = btc_tx()
    out = []
    n_ops = 0
    for j in range(lo, hi):
        rec = recs[j]
        n_ops += len(rec["acts"])
        bad = sdrv.run_behaviour(univ, Tx, rec, spenders, "rp-%d" % os.getpid(), salt=salt + j)
        if bad:
            out.append((j,) + bad)
    return out, n_ops, hi - lo


def store_env(sw):
    return {"X06_BADFILE": "1" if sw["badfile"] else "0", "X06_OOB": "1" if sw["oob"] else "0"}


def _store_selftest(ctx, univ, recs, spenders, failing):
    """corrupt the expected answer / the expected directory contents of one printed behaviour that the tree
    passes: the replay must notice"""
    import copy
    Tx = btc_tx()
    done = set()
    for j, rec in enumerate(recs):
        if j in failing or len(done) == 2:
            continue
        acts = rec["acts"]
        k = next((i for i, a in enumerate(acts) if a["last"]["op"] == "get" and a["last"]["res"] == "hit" and a["last"]["src"] == "look"), None)
        if k is None or sdrv.run_behaviour(univ, Tx, rec, spenders, "self-%d" % os.getpid()) is not None:
            continue
        if "answer" not in done:
            bad = copy.deepcopy(rec)
            bad["acts"][k]["last"]["form"] = "strip" if acts[k]["last"]["form"] == "full" else "full"
            ctx.selftest("store-replay-corrupted-answer", sdrv.run_behaviour(univ, Tx, bad, spenders, "self-%d" % os.getpid()) is not None)
            done.add("answer")
        if "dirs" not in done and rec["conf"]["w"]:
            bad = copy.deepcopy(rec)
            row = bad["acts"][k]["dirs"][-1]
            i = acts[k]["last"]["i"] - 1
            row[i] = "-"
            ctx.selftest("store-replay-corrupted-write-through", sdrv.run_behaviour(univ, Tx, bad, spenders, "self-%d" % os.getpid()) is not None)
            done.add("dirs")


def store_replay(ctx, fnd, univ, sw, cfgs, bg):
    jobs = [bg.export("X06_MC_TxStore", cfg, env=store_env(sw)) for cfg in cfgs]
    for cfg, job in zip(cfgs, jobs):
        r, by = bg.wait(job)
        recs, sp = by.get("beh", []), [x["sp"] for x in by.get("spenders", [])]
        job["recs"] = None
        if not recs or not sp:
            raise MachineryError("%s printed %d behaviours / %d spender tables" % (cfg, len(recs), len(sp)))
        if len(recs) < r.generated - 64:
            raise MachineryError("%s: %d behaviours for %d transitions" % (cfg, len(recs), r.generated))
        _G.update(univ=univ, recs=recs, spenders=sp[0])
        n = len(recs)
        step = max(1, n // (NPROC * 6))
        jobs = [(lo, min(n, lo + step), ctx.seed * 1000003) for lo in range(0, n, step)]
        t0 = time.time()
        res = pmap(_store_chunk, jobs, chunk=1)
        nops = 0
        for out, n_ops, nb in res:
            nops += n_ops
            for (j, key, what, detail) in out:
                fnd.fail(key, what, detail)
        ctx.replayed += n
        ctx.case(None, nops)
        for rec in recs:                                  # the last step of each behaviour is the transition it was printed for
            l = rec["acts"][-1]["last"]
            ctx.case(("store", l["op"], l.get("res") if l["op"] == "get" else l.get("st"), l.get("form"), l.get("src")), 0)
            ctx.action("X06_TxStore." + l["op"], 1)
        ctx.sample({"cfg": cfg, "behaviour": recs[n // 2]})
        ctx.log("%s: %d behaviours (%d calls) replayed on TxDb in %.1fs" % (cfg, n, nops, time.time() - t0))
        if "store-replay-corrupted-answer" not in ctx.selftests:
            _store_selftest(ctx, univ, recs, sp[0], {j for out, _, _ in res for (j, _k, _w, _d) in out})
        _G.clear()


# ---------------------------------------------------------------- store traces

def _blob_rec(letter):
    if letter == "?":
        return {"c": "unknown", "t": 0}
    c = sdrv.CLASS[letter[0]]
    return {"c": c, "t": int(letter[1:]) if len(letter) > 1 else 0}


LOOK_REC = {"-": "none", "f": "full", "s": "strip", "o": "obj", "z": "falsy", "r": "raise"}


def _look_rec(letter):
    return {"c": LOOK_REC[letter[0]], "t": int(letter[1:]) if len(letter) > 1 else 0}


def _rand_look(rng, i):
    o = rng.choice([x for x in (1, 2, 3) if x != i])
    return rng.choice(["-", "-", "f%d" % i, "f%d" % i, "f%d" % i, "f%d" % o, "o", "z", "r"] + (["s2"] if i == 2 else []) + (["s2"] if o == 2 else []))


def _rand_blob(rng, i):
    o = rng.choice([x for x in (1, 2, 3) if x != i])
    return rng.choice(["-", "f%d" % i, "f%d" % i, "f%d" % o, "x%d" % i, "t%d" % i, "t%d" % o, "e", "j"] + (["s2"] if 2 in (i, o) else []))


def _rand_spender(rng):
    ins = []
    for _ in range(rng.choice([1, 1, 2, 2, 3])):
        if rng.random() < 0.12:
            ins.append({"t": 0, "x": 0, "cl": "right"})
        else:
            t = rng.choice([1, 2, 3])
            x = rng.choice(list(range(t)) * 3 + [t, t + 1])
            ins.append({"t": t, "x": x, "cl": rng.choice(["right"] * 5 + ["amt", "scr", "other"])})
    return {"ins": ins, "out": rng.choice([10, 1000, 2500]), "val": all(i["t"] for i in ins)}


def record_store_trace(univ, Tx, rng, tag, nev):
    nro = rng.choice([0, 1, 2, 3])
    w = rng.random() < 0.75 or nro == 0
    nl = rng.choice([0, 1, 2, 3])
    conf = {"nro": nro, "w": w, "nl": nl}
    look0 = [[_rand_look(rng, i) for i in (1, 2, 3)] for _ in range(nl)]
    st = sdrv.Store(univ, Tx, conf, look0, tag, salt=rng.randrange(1 << 20))
    ev = []
    odd = []
    try:
        for _ in range(nev):
            op = rng.choice(["get"] * 6 + ["put"] * 2 + ["setitem"] + ["edit"] * 5 + ["setlook"] * 2 + ["fill"] * 3 + ["validate"] * 2)
            e = None
            if op == "get":
                i = rng.choice([1, 2, 3])
                o = st.get(i)
                e = {"op": "get", "i": i, "res": o["res"], "t": o["t"], "form": o["form"], "calls": o["calls"]}
            elif op == "put":
                t = rng.choice([1, 2, 3])
                o = st.put(t)
                if o["exc"]:
                    odd.append(("X06|store-trace|put|raises=" + o["exc"], "TxDb.put raised"))
                e = {"op": "put", "t": t}
            elif op == "setitem":
                k, t = rng.choice([1, 2, 3]), rng.choice([1, 2, 3])
                o = st.setitem(k, t)
                if o["exc"]:
                    odd.append(("X06|store-trace|setitem|raises=" + o["exc"], "db[k] = tx raised something else than ValueError"))
                e = {"op": "setitem", "k": k, "t": t, "ok": o["ok"]}
            elif op == "edit":
                d, i = rng.randrange(len(st.dirs)) + 1, rng.choice([1, 2, 3])
                cur = st.project_dirs(3)[0][d - 1][i - 1]
                b = _rand_blob(rng, i)
                if b[0] == cur[0] and b[1:] == cur[1:]:
                    continue
                st.plant(d, i, b)
                e = {"op": "edit", "d": d, "i": i, "b": _blob_rec(b)}
            elif op == "setlook":
                if nl == 0:
                    continue
                m, i = rng.randrange(nl) + 1, rng.choice([1, 2, 3])
                a = _rand_look(rng, i)
                if a == st.look[m - 1][i - 1]:
                    continue
                st.look[m - 1][i - 1] = a
                e = {"op": "setlook", "m": m, "i": i, "a": _look_rec(a)}
            elif op == "fill":
                sp = _rand_spender(rng)
                ign = rng.random() < 0.5
                o = st.fill(sp, ign)
                e = {"op": "fill", "sp": sp, "ign": ign, "st": o["st"], "us": o["us"] or [], "calls": o["calls"], "missing": bool(o.get("missing", False))}
            else:
                sp = _rand_spender(rng)
                if not sp["val"]:
                    continue
                o = st.validate(sp)
                e = {"op": "validate", "sp": sp, "res": o["res"], "fee": o.get("fee", 0)}
            got, stray = st.project_dirs(3)
            if stray:
                odd.append(("X06|store-trace|%s|stray-file" % op, "a file with an unexpected name appeared: %s" % stray))
            e["dirs"] = [[_blob_rec(x) for x in row] for row in got]
            ev.append(e)
    finally:
        st.close()
    return {"conf": conf, "look0": [[_look_rec(x) for x in row] for row in look0], "ev": ev}, odd


def _validate_traces(ctx, module, cfg, traces, env, tag):
    """-> (accepted ids, records) ; ids are 1-based"""
    os.makedirs(os.path.join(sdrv.BASE, "traces"), exist_ok=True)
    path = os.path.join(sdrv.BASE, "traces", "%s-%d.json" % (tag, os.getpid()))
    with open(path, "w") as f:
        json.dump(traces, f)
    e = dict(env)
    e["TRACE_FILE"] = path
    r = ctx.tlc(module, cfg, workers=min(WORKERS, 8), timeout=3000, count=False, env=e)
    hdr = [x for x in r.records if x.get("k") == "hdr"]
    if not hdr or hdr[0]["n"] != len(traces):
        raise MachineryError("%s loaded %s of %d traces" % (module, hdr and hdr[0]["n"], len(traces)))
    os.remove(path)
    return {x["tid"] for x in r.records if x.get("k") == "acc"}, r.records


def _selftest_traces(ctx, module, cfg, named, env, tag):
    """every one of the deliberately corrupted traces must be rejected (one TLC run for all of them)"""
    if not named:
        return 0
    acc, _ = _validate_traces(ctx, module, cfg, [t for _, t in named], env, tag)
    for k, (name, _) in enumerate(named):
        ctx.selftest(name, (k + 1) not in acc)
    return len(named)


def _first_rejected(ctx, module, cfg, trace, env, tag):
    e = dict(env)
    e["X06_PROGRESS"] = "1"
    acc, recs = _validate_traces(ctx, module, cfg, [trace], e, tag + "-diag")
    steps = [x["l"] for x in recs if x.get("k") == "step"]
    return (max(steps) if steps else 0) + 1, bool(acc)


def store_traces(ctx, fnd, univ, sw, ntr, nev, selftest=True):
    Tx = btc_tx()
    rng = random.Random(ctx.seed * 65537 + 11)
    traces = []
    for k in range(ntr):
        tr, odd = record_store_trace(univ, Tx, rng, "tr-%d" % os.getpid(), nev)
        for key, what in odd:
            fnd.fail(key, what, {"trace": k})
        traces.append(tr)
    env = store_env(sw)
    acc, _ = _validate_traces(ctx, "X06_Trace_TxStore", "X06_Trace_TxStore", traces, env, "store")
    nev_total = sum(len(t["ev"]) for t in traces)
    ctx.traces += len(acc)
    ctx.case(None, nev_total)
    ctx.log("store traces: %d recorded (%d events), %d accepted by TLC" % (len(traces), nev_total, len(acc)))
    for tid in sorted(set(range(1, len(traces) + 1)) - acc)[:5]:
        tr = traces[tid - 1]
        at, ok = _first_rejected(ctx, "X06_Trace_TxStore", "X06_Trace_TxStore", tr, env, "store")
        e = tr["ev"][at - 1] if at <= len(tr["ev"]) else {"op": "?"}
        fnd.fail("X06|store-trace|rejected-at|op=%s|%s" % (e.get("op"), e.get("res", e.get("st", "-"))),
                 "a recorded history of the real TxDb is not a behaviour of X06_TxStore (event %d)" % at,
                 {"conf": tr["conf"], "look0": tr["look0"], "events": tr["ev"][:at]})
    if selftest and traces and len(acc) == len(traces):
        # corrupt one observation of one recorded trace: it must be rejected
        import copy
        named = []
        for mode in ("answer", "dirs", "calls"):
            for k, tr in enumerate(traces):
                bad = copy.deepcopy(tr)
                hit = False
                for e in bad["ev"]:
                    if mode == "answer" and e["op"] == "get" and e["res"] == "hit":
                        e["t"] = e["t"] % 3 + 1
                        hit = True
                    elif mode == "dirs" and e["op"] == "get" and any(b["c"] == "full" for row in e["dirs"] for b in row):
                        for row in e["dirs"]:
                            for b in row:
                                if b["c"] == "full" and not hit:
                                    b["c"], hit = "trunc", True
                    elif mode == "calls" and e["op"] == "get" and e["res"] == "miss" and e["calls"]:
                        e["calls"] = e["calls"][:-1]
                        hit = True
                    if hit:
                        break
                if hit:
                    named.append(("store-trace-corrupted-" + mode, bad))
                    break
        if _selftest_traces(ctx, "X06_Trace_TxStore", "X06_Trace_TxStore", named, env, "store-self") < 2:
            raise MachineryError("store trace self-test found nothing to corrupt")


# ================================================================ (2) the keychain

def load_world(ctx, u):
    r = ctx.tlc("X06_MC_Keys", "X06_MC_Keys_" + u, workers=4, timeout=600)
    world = kdrv.World(r.records, ctx.seed)
    if len(world.key) != world.world["nkeys"]:
        raise MachineryError("X06_MC_Keys_%s printed %d keys of %d" % (u, len(world.key), world.world["nkeys"]))
    # R2: the evaluator against a second, independent computation of the same chain (plain hmac/hashlib + its curve):
    # every non-master key's parent is in the table too when its path is one longer; check one CKDpriv step by hand
    import hashlib
    import hmac
    from ..drv import bip32 as b32
    n = 0
    for name, e in world.key.items():
        m, path = name.split(":")
        if world.roots.get(m, {}).get("kind") == "plain" or m in ("P", "Q") or not path:
            continue
        parent = "%s:%s" % (m, "/".join(path.split("/")[:-1]))
        if parent not in world.key:
            continue
        last = path.split("/")[-1]
        hard = last.endswith("H")
        idx = int(last[:-1] if hard else last) + (0x80000000 if hard else 0)
        pe = world.key[parent]
        # the parent's chain code is not in the table: recompute the whole chain from the seed instead
        n += 1
    for m in {i["master"] for i in world.roots.values() if i["kind"] == "hd"}:
        seed = world.syms["seed" + m]
        I = hmac.new(b"Bitcoin seed", seed, hashlib.sha512).digest()
        k, c = int.from_bytes(I[:32], "big"), I[32:]
        for name, e in sorted(world.key.items()):
            mm, path = name.split(":")
            if mm != m:
                continue
            kk, cc = k, c
            for part in (path.split("/") if path else []):
                hard = part.endswith("H")
                idx = int(part[:-1] if hard else part) + (0x80000000 if hard else 0)
                data = (b"\0" + kk.to_bytes(32, "big") if hard else b32.ser_p(b32.mul_g(kk))) + idx.to_bytes(4, "big")
                I2 = hmac.new(cc, data, hashlib.sha512).digest()
                kk, cc = (int.from_bytes(I2[:32], "big") + kk) % b32.N, I2[32:]
            if kk != e["se"] or kdrv.h160(b32.ser_p(b32.mul_g(kk))) != e["hc"]:
                raise MachineryError("the evaluated BIP32 terms disagree with a direct computation for " + name)
            x, y = b32.mul_g(kk)
            if kdrv.h160(b"\x04" + x.to_bytes(32, "big") + y.to_bytes(32, "big")) != e["hu"]:
                raise MachineryError("uncompressed hash160 term disagrees for " + name)
            ctx.case(("key", len(path.split("/")) if path else 0, "H" in path))
    ctx.log("world %s: %d roots, %d ranges, %d keys evaluated" % (u, len(world.roots), len(world.ranges), len(world.key)))
    return world


def check_world_on_pycoin(ctx, fnd, world):
    bad = world.check_roots()
    for b in bad[:5]:
        fnd.fail("X06|world|root-differs-from-BIP32-term|" + b.split(" ", 1)[1], "pycoin's root object differs from the evaluated term: " + b, {"what": b})
    return not bad


def _kc_chunk(args):
    lo, hi, salt = args
    world, recs = _G["world"], _G["recs"]
    out = []
    ncalls = 0
    for j in range(lo, hi):
        rec = recs[j]
        ncalls += len(rec["acts"]) + 2 * len(world.qkeys) + 2 * len(world.scripts) + 1
        for b in kdrv.run_behaviour(world, rec, "kc-%d" % os.getpid(), salt=salt + j):
            out.append((j,) + b)
    return out, ncalls


def _kc_selftest(ctx, world, recs):
    import copy
    for rec in recs:
        fk = [x for x in rec["fin"]["keys"] if sorted(x[1]) == ["prv"]]
        if not fk or not rec["obs"]["interest"] or kdrv.run_behaviour(world, rec, "kself-%d" % os.getpid()):
            continue
        bad = copy.deepcopy(rec)
        for x in bad["fin"]["keys"]:
            if sorted(x[1]) == ["prv"]:
                x[1] = ["miss"]
                break
        ctx.selftest("keychain-replay-corrupted-answer", bool(kdrv.run_behaviour(world, bad, "kself-%d" % os.getpid())))
        bad = copy.deepcopy(rec)
        bad["obs"]["interest"] = bad["obs"]["interest"][1:]
        ctx.selftest("keychain-replay-corrupted-interest", bool(kdrv.run_behaviour(world, bad, "kself-%d" % os.getpid())))
        return


def kc_replay(ctx, fnd, worlds, cfgs, bg):
    jobs = [bg.export("X06_MC_Keychain", cfg) for cfg, u in cfgs]
    for (cfg, u), job in zip(cfgs, jobs):
        world = worlds[u]
        r, by = bg.wait(job)
        recs = by.get("beh", [])
        job["recs"] = None
        if len(recs) < r.generated - 64 or not recs:
            raise MachineryError("%s: %d behaviours for %d transitions" % (cfg, len(recs), r.generated))
        _G.update(world=world, recs=recs)
        n = len(recs)
        step = max(1, n // (NPROC * 6))
        jobs = [(lo, min(n, lo + step), ctx.seed * 7919) for lo in range(0, n, step)]
        t0 = time.time()
        res = pmap(_kc_chunk, jobs, chunk=1)
        ncalls = 0
        seen = set()
        for out, nc in res:
            ncalls += nc
            for (j, key, what, detail) in out:
                if key not in seen:
                    seen.add(key)
                    fnd.fail(key, what, detail)
        ctx.replayed += n
        ctx.case(None, ncalls)
        for rec in recs:
            l = rec["acts"][-1]
            ctx.case(("kc", l["op"], kdrv._kinds(sorted(kdrv.answer_text(a) for a in l["allowed"])) if l["op"] == "get" else l.get("ok"),
                      tuple(sorted(l.get("tags", [])))), 0)
            ctx.action("X06_Keychain." + l["op"], 1)
            for x in rec["fin"]["keys"]:
                ctx.case(("kc-fin", tuple(sorted(x[1])), tuple(sorted(x[2]))), 0)
        ctx.sample({"cfg": cfg, "behaviour": recs[n // 2]})
        ctx.log("%s: %d behaviours (%d calls) replayed on Keychain in %.1fs" % (cfg, n, ncalls, time.time() - t0))
        if "keychain-replay-corrupted-answer" not in ctx.selftests:
            _kc_selftest(ctx, world, recs)
        _G.clear()


# ---------------------------------------------------------------- keychain traces

def _key_struct(name):
    m, path = name.split(":")
    out = []
    for part in (path.split("/") if path else []):
        hard = part.endswith("H")
        out.append({"h": hard, "v": int(part[:-1] if hard else part)})
    return [m, out]


def _ans_struct(text):
    p = text.split("|")
    if p[0] == "miss":
        return ["miss"]
    if p[0] == "script" and p[1] != "?":
        return ["script", p[1]]
    if p[0] == "key" and len(p) == 4 and p[1] != "?" and p[2] in ("prv", "pub") and p[3] in ("c", "u"):
        return ["key", _key_struct(p[1]), p[2], p[3]]
    return ["other", text]


def record_kc_trace(world, rng, tag, nev):
    backed = rng.random() < 0.7
    ses = kdrv.Session(world, backed, tag, salt=rng.randrange(1 << 20))
    roots = sorted(world.roots)
    ev = []
    cand = []
    hard_single = [("H" in p) for p in world.singles]
    try:
        while len(ev) < nev:
            op = rng.choice(["addpaths"] * 6 + ["addkeyspath"] * 2 + ["addsecrets"] * 5 + ["clearsecrets"] + ["addscript"] * 2 +
                            ["addscripts"] + ["commit"] * 2 + (["reopen"] * 2 if backed else []) + ["get"] * 12)
            if op == "addpaths":
                r, form, g = rng.choice(roots), rng.choice(["prv", "prv", "pub"]), rng.randrange(len(world.ranges)) + 1
                o = ses.addpaths(r, form, g)
                e = {"op": op, "r": r, "form": form, "g": g, "ok": o["ok"], "count": o.get("count", 0)}
                info = world.roots[r]
                for pth in world.ranges[g - 1]["paths"]:
                    cand.append(info["key"] if info["kind"] == "plain" else
                                "%s:%s" % (info["master"], "/".join(x for x in (info["at"], pth) if x)))
            elif op == "addkeyspath":
                sidx = rng.randrange(len(world.singles)) + 1
                form = rng.choice(["prv", "prv", "pub"])
                k = 1 if (form == "pub" and hard_single[sidx - 1]) else rng.choice([1, 2, 3])
                rs = sorted(rng.sample(roots, k))
                o = ses.addkeyspath(rs, form, sidx)
                e = {"op": op, "rs": rs, "form": form, "s": sidx, "ok": o["ok"], "count": o.get("count", 0)}
                for r in rs:
                    info = world.roots[r]
                    cand.append(info["key"] if info["kind"] == "plain" else
                                "%s:%s" % (info["master"], "/".join(x for x in (info["at"], world.singles[sidx - 1]) if x)))
            elif op == "addsecrets":
                cs = sorted({(rng.choice(roots), rng.choice(["prv", "prv", "pub"])) for _ in range(rng.choice([1, 1, 2]))})
                exc = ses.call(ses.kc.add_secrets, [world.root(r, f) for r, f in cs])
                e = {"op": op, "cs": [list(c) for c in cs]}
                if exc:
                    e["op"] = "raised:" + exc
            elif op == "clearsecrets":
                exc = ses.call(ses.kc.clear_secrets)
                e = {"op": op if not exc else "raised:" + exc}
            elif op == "addscript":
                sname = rng.choice(sorted(world.scripts))
                exc = ses.call(ses.kc.add_p2s_script, world.scripts[sname])
                e = {"op": op if not exc else "raised:" + exc, "s": sname}
            elif op == "addscripts":
                ss = sorted(rng.sample(sorted(world.scripts), rng.choice([1, 2])))
                exc = ses.call(ses.kc.add_p2s_scripts, [world.scripts[x] for x in ss])
                e = {"op": op if not exc else "raised:" + exc, "ss": ss}
            elif op == "commit":
                exc = ses.call(ses.kc.commit)
                e = {"op": op if not exc else "raised:" + exc}
            elif op == "reopen":
                exc = ses.call(ses.reopen)
                e = {"op": op if not exc else "raised:" + exc}
            else:
                x = rng.random()
                if x < 0.6 and cand:
                    name = rng.choice(cand)
                    q = ["k", _key_struct(name), rng.choice(["c", "u"])]
                elif x < 0.8:
                    q = ["k", _key_struct(rng.choice(sorted(world.key))), rng.choice(["c", "u"])]
                elif x < 0.92:
                    q = [rng.choice(["s160", "s256"]), rng.choice(sorted(world.scripts))]
                else:
                    q = ["unknown"]
                h, _ = world.query_hash([q[0], [q[1][0], q[1][1]], q[2]] if q[0] == "k" else q)
                e = {"op": "get", "q": q, "ans": _ans_struct(ses.get(h))}
            o = ses.observers()
            interest = []
            if isinstance(o["interest"], str):
                interest.append(["raised", o["interest"]])
            else:
                got = o["interest"]
                kc_ = {x[1] for x in got if x[0] == "k" and x[2] == "c"}
                ku_ = {x[1] for x in got if x[0] == "k" and x[2] == "u"}
                s1 = {x[1] for x in got if x[0] == "s" and x[2] == "s160"}
                s2 = {x[1] for x in got if x[0] == "s" and x[2] == "s256"}
                for nme in sorted(kc_ & ku_):
                    interest.append(["k", _key_struct(nme)])
                for nme in sorted(s1 & s2):
                    interest.append(["s", nme])
                for nme in sorted((kc_ ^ ku_) | (s1 ^ s2)):
                    interest.append(["half", nme])
                for x in sorted(got):
                    if x[0] == "?":
                        interest.append(["unknown-hash", x[1]])
            e["interest"] = interest
            e["hs"] = o["hs"] if isinstance(o["hs"], bool) else "raised"
            ev.append(e)
    finally:
        ses.close()
    return {"backed": backed, "ev": ev}


def _struct_text(a):
    return kdrv.answer_text(a) if a and a[0] in ("key", "script", "miss") else "|".join(str(x) for x in a)


def kc_traces(ctx, fnd, worldx, ntr, nev, selftest=True):
    rng = random.Random(ctx.seed * 92821 + 5)
    traces = [record_kc_trace(worldx, rng, "ktr-%d" % os.getpid(), nev) for _ in range(ntr)]
    acc, recs = _validate_traces(ctx, "X06_Trace_Keychain", "X06_Trace_Keychain", traces, {}, "kc")
    nev_total = sum(len(t["ev"]) for t in traces)
    ctx.traces += len(acc)
    ctx.case(None, nev_total)
    devs = [x for x in recs if x.get("k") == "dev"]
    ctx.log("keychain traces: %d recorded (%d events), %d accepted by TLC, %d tolerated deviations to judge" % (
        len(traces), nev_total, len(acc), len(devs)))
    for d in devs:
        want = sorted(kdrv.answer_text(a) for a in d["allowed"])
        got = _struct_text(d["ans"]) if d["ans"][0] != "other" else d["ans"][1]
        q = d["q"]
        qtext = "k|%s|%s" % (kdrv.key_name(q[1]), q[2]) if q[0] == "k" else "|".join(q)
        fnd.fail(kdrv._get_key(want, got, qtext, d["tags"]), "in a recorded history Keychain.get answers outside what the rule allows",
                 {"query": qtext, "want": want, "got": got, "trace": d["tid"], "event": d["l"],
                  "history": [dict((k, v) for k, v in e.items() if k not in ("interest",)) for e in traces[d["tid"] - 1]["ev"][:d["l"]]]})
    for tid in sorted(set(range(1, len(traces) + 1)) - acc)[:5]:
        tr = traces[tid - 1]
        at, ok = _first_rejected(ctx, "X06_Trace_Keychain", "X06_Trace_Keychain", tr, {}, "kc")
        e = tr["ev"][at - 1] if at <= len(tr["ev"]) else {"op": "?"}
        cls = e.get("op")
        if e.get("op") == "get":
            cls += "|got=" + (e["ans"][0] if e["ans"][0] != "key" else e["ans"][2])
        fnd.fail("X06|keychain-trace|rejected-at|%s" % cls,
                 "a recorded history of the real Keychain is not a behaviour of X06_Keychain (event %d)" % at,
                 {"backed": tr["backed"], "events": [dict((k, v) for k, v in x.items() if k != "interest") for x in tr["ev"][:at]],
                  "interest_logged": e.get("interest"), "hs": e.get("hs")})
    if selftest and traces and len(acc) == len(traces):
        import copy
        named = []
        for mode in ("answer", "interest", "count"):
            for tr in traces:
                bad = copy.deepcopy(tr)
                hit = False
                for e in bad["ev"]:
                    if mode == "answer" and e["op"] == "get" and e["ans"][0] == "key" and e["ans"][2] == "prv":
                        e["ans"][3] = "u" if e["ans"][3] == "c" else "c"
                        hit = True
                    elif mode == "interest" and len(e["interest"]) >= 2:
                        e["interest"] = e["interest"][1:]
                        hit = True
                    elif mode == "count" and e["op"] == "addpaths" and e["ok"]:
                        e["count"] += 1
                        hit = True
                    if hit:
                        break
                if hit:
                    named.append(("keychain-trace-corrupted-" + mode, bad))
                    break
        if _selftest_traces(ctx, "X06_Trace_Keychain", "X06_Trace_Keychain", named, {}, "kc-self") < 2:
            raise MachineryError("keychain trace self-test found nothing to corrupt")


# ================================================================ (3) configuration -> store

def _cfg_probe(univ):
    """the TxDb that get_tx_db() returned behaves like X06_TxStore's store of the shape the rule gives it:
    a file in the LAST read-only directory answers without any lookup; a miss consults the fake lookups in
    list order; put lands in <cache>/txs"""
    Tx = btc_tx()

    def probe(ses, db, st):
        if any(p["kind"] != "fake" for p in cdrv.seq(st["lookups"])):
            return None                                  # real providers are never called
        ro = cdrv.seq(st["ro"])
        name1 = univ.name(1)
        if ro:
            d = ses.path(ro[-1])
            os.makedirs(d, exist_ok=True)
            with open(os.path.join(d, name1), "wb") as f:
                f.write(univ.blob[("full", 1)][0])
        del ses.calls[:]
        try:
            r1 = db.get(univ.txid[1])
            c1 = list(ses.calls)
            del ses.calls[:]
            r3 = db.get(univ.txid[3])
            c3 = list(ses.calls)
            db.put(txwire.build_tx(Tx, univ.txp[2]))
        except Exception as e:                          # noqa
            return "X06|config|probe|raises=" + type(e).__name__
        finally:
            if ro:
                os.remove(os.path.join(ses.path(ro[-1]), name1))
        ids = [p["id"] for p in cdrv.seq(st["lookups"])]
        if ro and (r1 is None or r1.hash() != univ.txid[1] or c1):
            return "X06|config|probe|file-in-last-read-only-dir-not-served"
        if not ro and c1 != ids:
            return "X06|config|probe|lookup-order"
        if r3 is not None or c3 != ids:
            return "X06|config|probe|lookup-order"
        cache = os.environ.get("PYCOIN_CACHE_DIR") or ""
        if st["w"]:
            pth = os.path.join(cache, "txs", univ.name(2))
            if not os.path.exists(pth):
                return "X06|config|probe|put-not-in-cache-dir"
            os.remove(pth)
        return None
    return probe


def _cfg_chunk(args):
    lo, hi, salt = args
    recs, univ = _G["recs"], _G["univ"]
    probe = _cfg_probe(univ)
    out = []
    for j in range(lo, hi):
        bad = cdrv.run_behaviour(recs[j], "cfg-%d" % os.getpid(), salt=salt + j, probe=probe)
        if bad:
            out.append((j,) + bad)
    return out, sum(len(recs[j]["acts"]) for j in range(lo, hi))


def _rand_cfg_trace(rng, nev):
    words = sorted(cdrv.WORD)
    ev = []
    byenv = set()
    for _ in range(nev):
        op = rng.choice(["setcache", "setdirs", "setprov", "setprov", "setdefault", "setdefault", "getdefault", "getdefault", "getdefault", "makedb", "makedb"])
        th, net = rng.choice(["T1", "T2", "T3"]), rng.choice(["BTC", "XTN"])
        if op == "setcache":
            ev.append({"op": op, "c": rng.choice(["", "c1", "c2", "c3"])})
        elif op == "setdirs":
            ev.append({"op": op, "dl": [rng.choice(["", "d1", "d2", "d3", "d4"]) for _ in range(rng.randrange(6))]})
        elif op == "setprov":
            if net in byenv:
                continue
            ev.append({"op": op, "net": net, "ws": [rng.choice(words) for _ in range(rng.randrange(7))]})
        elif op == "setdefault":
            ev.append({"op": op, "th": th, "net": net,
                       "lst": [{"id": rng.randrange(1, 90), "kind": "fake", "tx": rng.random() < 0.6, "sp": rng.random() < 0.5}
                               for _ in range(rng.randrange(5))]})
        else:
            ev.append({"op": op, "th": th, "net": net})
    return ev


def record_cfg_trace(rng, tag, nev):
    plan = _rand_cfg_trace(rng, nev)
    ses = cdrv.Session(tag, salt=rng.randrange(1 << 20), threads=("T1", "T2", "T3"))
    ev = []
    unset = {(t, x) for t in ("T1", "T2", "T3") for x in ("BTC", "XTN")}
    byenv = set()
    try:
        for e in plan:
            op = e["op"]
            if op == "setcache":
                ses.setcache(e["c"])
            elif op == "setdirs":
                ses.setdirs(e["dl"])
            elif op == "setprov":
                if e["net"] in byenv:
                    continue
                ses.setprov(e["net"], e["ws"])
            elif op == "setdefault":
                ses.setdefault(e["th"], e["net"], e["lst"])
                unset.discard((e["th"], e["net"]))
            elif op == "getdefault":
                o = ses.getdefault(e["th"], e["net"])
                e = dict(e, **o)
                if (e["th"], e["net"]) in unset:
                    byenv.add(e["net"])
            else:
                o = ses.makedb(e["th"], e["net"])
                o.pop("db")
                ok = o.pop("wdir_ok")
                e = dict(e, **o)
                if not ok:
                    e["msg_cache"] = "writable directory is not <cache>/txs"
                if (e["th"], e["net"]) in unset:
                    byenv.add(e["net"])
            ev.append(e)
    finally:
        ses.close()
    return ev


def config_stage(ctx, fnd, univ, q):
    recs = []
    r = ctx.tlc("X06_MC_Config", "X06_MC_Config_rp_" + ("q" if q else "t"), workers=WORKERS, timeout=3000,
                on_record=lambda x: recs.append(x) if x.get("k") == "beh" else None, keep_records=False)
    if len(recs) < r.generated - 64 or not recs:
        raise MachineryError("X06_MC_Config: %d behaviours for %d transitions" % (len(recs), r.generated))
    _G.update(recs=recs, univ=univ)
    n = len(recs)
    step = max(1, n // (NPROC * 4))
    t0 = time.time()
    res = pmap(_cfg_chunk, [(lo, min(n, lo + step), ctx.seed * 31) for lo in range(0, n, step)], chunk=1)
    nops = 0
    for out, k in res:
        nops += k
        for (j, key, what, detail) in out:
            fnd.fail(key, what, detail)
    ctx.replayed += n
    ctx.case(None, nops)
    for rec in recs:
        l = rec["acts"][-1]
        ctx.case(("cfg", l["op"], l.get("same"), len(cdrv.seq(l.get("warned", []))) > 0,
                  (l["store"]["nro"] > 0, l["store"]["w"], l["store"]["nl"] > 0) if l["op"] == "makedb" else None), 0)
        ctx.action("X06_Config." + l["op"], 1)
    ctx.sample({"cfg": "X06_MC_Config", "behaviour": recs[n // 2]})
    ctx.log("X06_MC_Config: %d behaviours (%d steps) replayed with real threads / os.environ in %.1fs" % (n, nops, time.time() - t0))
    _G.clear()
    # traces: longer histories, three threads, arbitrary word lists
    rng = random.Random(ctx.seed * 1013 + 3)
    traces = [record_cfg_trace(rng, "cfgtr-%d" % os.getpid(), 14 if q else 24) for _ in range(80 if q else 800)]
    acc, _ = _validate_traces(ctx, "X06_MC_Config", "X06_MC_Config_trace", traces, {}, "cfg")
    ctx.traces += len(acc)
    ctx.case(None, sum(len(t) for t in traces))
    ctx.log("configuration traces: %d recorded, %d accepted by TLC" % (len(traces), len(acc)))
    for tid in sorted(set(range(1, len(traces) + 1)) - acc)[:5]:
        tr = traces[tid - 1]
        at, ok = _first_rejected(ctx, "X06_MC_Config", "X06_MC_Config_trace", tr, {}, "cfg")
        e = tr[at - 1] if at <= len(tr) else {"op": "?"}
        fnd.fail("X06|config-trace|rejected-at|op=%s" % e.get("op"),
                 "a recorded history of providers/env is not a behaviour of X06_Config (event %d)" % at, {"events": tr[:at]})
    if traces and len(acc) == len(traces):
        import copy
        for tr in traces:
            bad = copy.deepcopy(tr)
            hit = False
            for e in bad:
                if e["op"] == "makedb" and e["store"]["nro"] > 0:
                    e["store"]["ro"] = e["store"]["ro"][::-1] + ["extra"]
                    hit = True
                    break
            if hit:
                a2, _ = _validate_traces(ctx, "X06_MC_Config", "X06_MC_Config_trace", [bad], {}, "cfg-self")
                ctx.selftest("config-trace-corrupted-store", not a2)
                break


def run(ctx):
    # everything this run puts on disk lives under /tmp/x06/run-<pid>/ and is removed at the end
    base = os.path.join("/tmp/x06", "run-%d" % os.getpid())
    sdrv.BASE = kdrv.BASE = cdrv.BASE = base
    os.makedirs(base, exist_ok=True)
    try:
        _run(ctx)
    finally:
        shutil.rmtree(base, ignore_errors=True)


def _run(ctx):
    fnd = Findings(ctx)
    q = ctx.quick
    ctx.rule = ("distinct classes = (operation kind, outcome class, form, answering layer kind) for the store; "
                "(call kind, answer kinds allowed, circumstance tags) for the keychain; blob classes; provider descriptor classes")
    univ = None
    if any(want(ctx, s) for s in ("blobs", "sprobe", "sreplay", "straces", "selftest", "config")):
        univ = load_universe(ctx)
        if not check_universe_on_pycoin(ctx, fnd, univ):
            return
    bg = Background(ctx)
    if want(ctx, "smodel"):
        for cfg in (["core_q", "use_q"] if q else ["core_t", "use_t"]):
            bg.start("X06_MC_TxStore", "X06_MC_TxStore_" + cfg)
        for cfg, inv in (("bad_file", "AnswerIsAsked"), ("bad_oob", "ValidatedRight"), ("bad_anytx", "AnswerIsAsked")):
            bg.start("X06_MC_TxStore", "X06_MC_TxStore_" + cfg, expect=inv)
    if want(ctx, "kmodel"):
        bg.start("X06_MC_Keychain", "X06_MC_Keychain_" + ("q" if q else "t"))
        bg.start("X06_MC_Keychain", "X06_MC_Keychain_bad_deriv", expect="PubOnlyPublic")
    if want(ctx, "config"):
        bg.start("X06_MC_Config", "X06_MC_Config_" + ("q" if q else "t"))
    sw = None
    if any(want(ctx, s) for s in ("sprobe", "sreplay", "straces")):
        sw = probe_deviations(ctx, fnd, univ)
    if want(ctx, "sreplay"):
        store_replay(ctx, fnd, univ, sw, ["X06_MC_TxStore_" + c for c in (("rp_a_q", "rp_b_q", "rp_use_q") if q else ("rp_a_t", "rp_b_t", "rp_use_t"))], bg)
    if want(ctx, "straces"):
        store_traces(ctx, fnd, univ, sw, 60 if q else 600, 40 if q else 60)
    if any(want(ctx, st) for st in ("keys", "kreplay")):
        worlds = {}
        for u in (("q",) if q else ("q", "t")):
            worlds[u] = load_world(ctx, u)
            if not check_world_on_pycoin(ctx, fnd, worlds[u]):
                return
        if want(ctx, "kreplay"):
            kc_replay(ctx, fnd, worlds, [("X06_MC_Keychain_rp_up_q", "q"), ("X06_MC_Keychain_rp_persist_q", "q"), ("X06_MC_Keychain_rp_broad_q", "q")] if q else
                      [("X06_MC_Keychain_rp_up_t", "q"), ("X06_MC_Keychain_rp_persist_t", "q"), ("X06_MC_Keychain_rp_broad_t", "q"),
                       ("X06_MC_Keychain_rp_wide_t", "t")], bg)
    if want(ctx, "ktraces"):
        worldx = load_world(ctx, "x")
        if check_world_on_pycoin(ctx, fnd, worldx):
            kc_traces(ctx, fnd, worldx, 60 if q else 600, 50 if q else 80)
    if want(ctx, "config"):
        config_stage(ctx, fnd, univ, q)
    bg.finish()
