"""C08 - addresses and output scripts are in one-to-one correspondence on every network.

1. Model: spec/Address.tla (AddrOf / Reads / Decode with exact payload lengths, the
   cross-acceptance clause) and spec/Classify.tla (Build / Matches / Allowed) are checked by
   TLC on synthetic prefix tables (sane ones satisfy the lemmas, deliberately broken ones must
   violate them) and evaluated over the REAL table of ~50 networks that the harness reads from
   pycoin and hands to TLC as a JSON constant.
2. spec -> code: TLC prints, for every network x kind x hash class (and for mutated texts:
   other payload lengths, witness versions, checksum constants), the address text and what
   EVERY network of the table must read from it; every script of <= MaxLen tokens (and the
   edit neighbourhood of the templates) with the answers a faithful classifier may give; the
   address terms of keys.  All of it is executed on pycoin.
3. code -> spec: seeded sessions (random networks, hashes, real serialisations mutated in
   prefix / length / version with the checksum recomputed, one parseable_str object shared by
   the calls of a session) are logged and validated by TLC against Trace_Address.tla.
"""
from __future__ import annotations

import json
import os
import random

from ..ctx import MachineryError
from ..drv import nets
from ..par import pmap, split, NPROC

KINDS = ["p2pkh", "p2sh", "p2wpkh", "p2wsh", "p2tr"]
ENC_API = {"p2pkh": "for_p2pkh", "p2sh": "for_p2sh", "p2wpkh": "for_p2pkh_wit", "p2wsh": "for_p2sh_wit", "p2tr": "for_p2tr"}
PYTYPE = {"p2pkh": "p2pkh", "p2sh": "p2sh", "p2wpkh": "p2pkh_wit", "p2wsh": "p2sh_wit", "p2tr": "p2tr"}

# official vectors the term evaluators and the address terms are validated with (R2)
VEC_G_COMPRESSED = "1BgGZ9tcN4rm9KBzDn7KprQz87SZ26SAMH"          # secret exponent 1 (REPO/tests/key_validate_test.py)
VEC_G_UNCOMPRESSED = "1EHNa6Q4Jz2uvNExL497mE43ikXhwF6kZm"
VEC_G_SEGWIT = "bc1qw508d6qejxtdg4y5r3zarvary0c5xw7kv8f3t4"      # BIP173
VEC_BIP49 = ("03a1af804ac108a8a51782198c2d034b28bf90c8803f5a53f76276fa69a4eae77f", "XTN",
             "2Mww8dCYPUpKHofjgcXcBCEGmniw9CoaiD2")                # BIP49 test vector
VEC_BIP84 = ("0330d54fd0dd420a6e5f8d3624f5f3482cae350f79d5f0753bf5beef9c2d91af3c", "BTC",
             "bc1qcr8te4kr609gcawutmrza0j4xv80jy8z306fyu")         # BIP84 test vector
VEC_P2TR = ("79be667ef9dcbbac55a06295ce870b07029bfcdb2dce28d959f2815b16f81798",
            "bc1p0xlxvlhemja6c4dqv22uapctqupfhlxm9h8z3k2e72q4k9hcz7vqzk5jj0")   # BIP350


KEY_SECRETS = (1, 2, 3, nets.N - 1, 0x1234567890ABCDEF1234567890ABCDEF)     # the first points of the key table are k*G


def _key_table():
    pts = [nets.ec_mul(k) for k in KEY_SECRETS]
    for hx in (VEC_BIP49[0], VEC_BIP84[0]):
        b = bytes.fromhex(hx)
        x = int.from_bytes(b[1:], "big")
        pts.append((x, nets.y_for_x(x, b[0] & 1)))
    return pts


# ---------------------------------------------------------------- replay: address cases
def _got(res):
    """projection of parse.address(..): None | (type, script hex, address)"""
    if res is None:
        return None
    try:
        return (res.info().get("type"), res.script().hex(), res.address())
    except Exception as e:  # noqa: BLE001
        return ("exc:" + type(e).__name__, "", "")


def _case_chunk(recs):
    """execute address cases on pycoin; returns (n_evaluations, [failure dicts], [class keys])"""
    allnets = nets.networks_ext()
    stub = {s: nets.is_stub(n) for s, n in allnets}
    fails = []
    classes = set()
    nev = 0
    for r in recs:
        N = nets.net(r["n"])
        b58 = r["text"]["op"] == "b58c"
        if b58 and r["text"]["chk"] not in nets.CHECKSUMS:
            continue        # Groestlcoin Base58 texts cannot be produced here (L3)
        text = nets.ev_text(r["text"])
        h = bytes(r["h"])
        kind = r["kind"]
        pd = r.get("pd") or {"or": 0, "ext": []}
        canon = not pd["or"] and not pd["ext"]
        base = {"n": r["n"], "kind": kind, "len": r["len"], "first": r["first"], "ver": r["ver"], "var": r["var"], "pd": pd, "text": text}
        if r["good"]:
            classes.add((r["n"], kind, r["first"]))
            script = nets.script_bytes(r["script"], {1: h})
            # ---- encoder side on N
            obs = {}
            for nm, f in (("address." + ENC_API[kind], lambda: getattr(N.address, ENC_API[kind])(h)),
                          ("address.for_script", lambda: N.address.for_script(script)),
                          ("contract." + ENC_API[kind], lambda: getattr(N.contract, ENC_API[kind])(h)),
                          ("contract.info_for_script", lambda: N.contract.info_for_script(script).get("type"))):
                obs[nm] = nets.call(f)
                nev += 1
            want = {"address." + ENC_API[kind]: text, "address.for_script": text,
                    "contract." + ENC_API[kind]: script, "contract.info_for_script": PYTYPE[kind]}
            for nm, w in want.items():
                tag, v = obs[nm]
                if tag != "ok" or v != w:
                    fails.append(dict(base, key="C08|%s|kind=%s|%s" % (nm, kind, "exc:" + v if tag != "ok" else "differs"),
                                      what="%s on %s for %s hash %s: expected %r, got %r" % (nm, r["n"], kind, h.hex(), w if isinstance(w, str) else w.hex(), v if not isinstance(v, bytes) else v.hex()),
                                      got=repr(v)))
            if not stub[r["n"]]:
                tag, v = nets.call(N.contract.for_address, text)
                nev += 1
                if tag != "ok" or v != script:
                    fails.append(dict(base, key="C08|contract.for_address|kind=%s|%s" % (kind, "exc:" + str(v) if tag != "ok" else "differs"),
                                      what="contract.for_address(%r) on %s: expected the %s script, got %r" % (text, r["n"], kind, v), got=repr(v)))
            if not r["rt"]:
                fails.append(dict(base, key="C08|table|roundtrip|N=%s|kind=%s" % (r["n"], kind),
                                  what="on %s the address of a %s script does not read back as that script only (two kinds share a prefix)" % (r["n"], kind)))
        # ---- parser side on every network
        for e in r["expect"]:
            msym = e["m"]
            if stub[msym]:
                continue
            M = nets.net(msym)
            tag, res = nets.call(M.parse.address, text)
            nev += 1
            if tag != "ok":
                fails.append(dict(base, m=msym, key="C08|parse.address|exc=%s|enc=%s" % (res, "b58" if b58 else "seg"),
                                  what="%s.parse.address(%r) raised %s" % (msym, text, res)))
                continue
            got = _got(res)
            if e["ok"]:
                wscript = nets.script_bytes(e["script"], {1: bytes(e["h"])}).hex()
                if got is None or got[0] != PYTYPE[e["kind"]] or got[1] != wscript or got[2] != text:
                    fails.append(dict(base, m=msym, key="C08|parse.address|N=%s|M=%s|kind=%s|expected=%s|got=%s" % (
                        "same" if msym == r["n"] else "other", "self" if msym == r["n"] else "other", kind, e["kind"], got and got[0]),
                        what="%s.parse.address(%r) (text of %s for %s): expected %s script %s re-encoding to the same text, got %r" % (
                            msym, text, r["n"], kind, e["kind"], wscript, got), got=got))
                elif e["x"]:
                    # pycoin does what the rules say, and the rules + this table break the cross-acceptance clause
                    fails.append(dict(base, m=msym, key="C08|cross|table|N=%s|M=%s|kind=%s|as=%s" % (r["n"], msym, kind, e["kind"]),
                                      what="the %s address %s of %s is accepted by %s as a %s address (script %s): the two networks' version bytes coincide across kinds" % (
                                          kind, text, r["n"], msym, e["kind"], got[1]), got=got))
            else:
                if got is not None:
                    if r["good"]:
                        key = "C08|cross|length|N=%s|M=%s|kind=%s|as=%s|got=%s" % (r["n"], msym, kind, "+".join(e["lk"]), got[0])
                        what = ("the %s address %s of %s is accepted by %s (type %s, script %s): %s's version bytes are a proper prefix / extension "
                                "and the payload length is not checked" % (kind, text, r["n"], msym, got[0], got[1], msym))
                    else:
                        if b58:
                            key = "C08|parse.address|wrong-shape|enc=b58|kind=%s|payload=%s|got=%s" % (
                                kind, "short" if r["len"] < 20 else "long", got[0])
                        else:
                            key = "C08|parse.address|wrong-shape|enc=seg|kind=%s|len=%d|ver=%d|var=%s|got=%s" % (
                                kind, r["len"], r["ver"], r["var"], got[0])
                            if not canon:
                                key += "|padding=%s" % ("+".join(x for x in ("bits" if pd["or"] else "", "symbols" if pd["ext"] else "") if x))
                        what = "%s.parse.address(%r) (version bytes of %s %s, %d-byte payload, witness version %d, %s%s): expected None, got type %s script %s" % (
                            msym, text, r["n"], kind, r["len"], r["ver"], r["var"],
                            "" if canon else ", padding bits %d, further symbols %s" % (pd["or"], pd["ext"]), got[0], got[1])
                    fails.append(dict(base, m=msym, key=key, what=what, got=got))
    return nev, fails, sorted(classes)


def _run_cases(ctx, recs, tag):
    chunks = split(recs, NPROC * 4)
    res = pmap(_case_chunk, chunks, chunk=1)
    nf = 0
    for nev, fails, classes in res:
        ctx.case(None, nev)
        for c in classes:
            ctx.case(("addr",) + tuple(c), 0)
        for f in fails:
            nf += 1
            ctx.fail(f["key"], f["what"], f)
    ctx.replayed += len(recs)
    ctx.action("replay." + tag, len(recs))
    return nf


# ---------------------------------------------------------------- replay: keys
def _key_cases(args):
    recs, pts = args
    fails = []
    nev = 0
    for r in recs:
        N = nets.net(r["n"])
        if nets.is_stub(N) :
            continue
        pt = pts[r["key"] - 1]
        want = {k: (nets.ev_text(r[k][0]) if r[k] else None) for k in ("addr_c", "addr_u", "bip49", "bip84", "bip49_u", "bip84_u")}
        secc = nets.sec_of(pt, True)
        blob = b"\0\0\0\0" + b"\0" + b"\0\0\0\0" + b"\0\0\0\0" + bytes(range(32)) + secc
        obs = {
            "Key(public_pair).address(compressed)": (want["addr_c"], lambda: N.keys.public(pt).address(is_compressed=True)),
            "Key(public_pair).address(uncompressed)": (want["addr_u"], lambda: N.keys.public(pt).address(is_compressed=False)),
            "Key.from_sec(compressed).address()": (want["addr_c"], lambda: N.keys.public(secc).address()),
            "Key.from_sec(uncompressed).address()": (want["addr_u"], lambda: N.keys.public(nets.sec_of(pt, False)).address()),
            "address.for_script(contract.for_p2pkh(key.hash160()))": (want["addr_c"], lambda: N.address.for_script(N.contract.for_p2pkh(N.keys.public(pt).hash160()))),
            "BIP32Node.address()": (want["addr_c"], lambda: N.keys.bip32_deserialize(blob).address()),
            "BIP49Node.address()": (want["bip49"], lambda: N.keys.bip49_deserialize(blob).address()),
            "BIP84Node.address()": (want["bip84"], lambda: N.keys.bip84_deserialize(blob).address()),
        }
        # asked for the uncompressed form: the address of the script paying to THAT hash, or a refusal (exception)
        obs_u = {
            "BIP32Node.address(uncompressed)": (want["addr_u"], lambda: N.keys.bip32_deserialize(blob).address(is_compressed=False)),
            "BIP49Node.address(uncompressed)": (want["bip49_u"], lambda: N.keys.bip49_deserialize(blob).address(is_compressed=False)),
            "BIP84Node.address(uncompressed)": (want["bip84_u"], lambda: N.keys.bip84_deserialize(blob).address(is_compressed=False)),
            "BIP32Node.address(compressed)": (want["addr_c"], lambda: N.keys.bip32_deserialize(blob).address(is_compressed=True)),
            "BIP49Node.address(compressed)": (want["bip49"], lambda: N.keys.bip49_deserialize(blob).address(is_compressed=True)),
            "BIP84Node.address(compressed)": (want["bip84"], lambda: N.keys.bip84_deserialize(blob).address(is_compressed=True)),
        }
        for nm, (w, f) in obs_u.items():
            tag, v = nets.call(f)
            nev += 1
            if tag == "ok" and v != w:
                fails.append({"key": "C08|key-address|%s|differs" % nm,
                              "what": "%s on %s for the point %x: expected %r (or a refusal), got %r" % (nm, r["n"], pt[0], w, v), "n": r["n"], "pt": [hex(pt[0]), hex(pt[1])]})
        for nm, (w, f) in obs.items():
            tag, v = nets.call(f)
            nev += 1
            if tag != "ok" or v != w:
                fails.append({"key": "C08|key-address|%s|%s" % (nm, "exc:" + str(v) if tag != "ok" else "differs"),
                              "what": "%s on %s for the point %x: expected %r, got %r" % (nm, r["n"], pt[0], w, v), "n": r["n"], "pt": [hex(pt[0]), hex(pt[1])]})
    return nev, fails


# ---------------------------------------------------------------- replay: sessions on one key object
FORM_ARG = {"c": True, "u": False, "d": None}


def _op_name(op):
    return "copy" if op["a"] == "copy" else "%s:%s" % (op["o"], op["f"])


def _hist_chunk(args):
    """execute key-object sessions: (network symbol, key index, {form: (address, hash)}) x sessions"""
    targets, sessions = args
    fails = []
    nev = 0
    for sym, ki, terms in targets:
        N = nets.net(sym)
        se = KEY_SECRETS[ki - 1]
        blob = b"\0\0\0\0" + b"\0" + b"\0\0\0\0" + b"\0\0\0\0" + bytes(range(32)) + b"\0" + se.to_bytes(32, "big")
        for ses in sessions:
            if ses["obj"] == "key":
                tag, k = nets.call(lambda: N.keys.private(se, is_compressed=ses["marked"]))
            else:
                tag, k = nets.call(N.keys.bip32_deserialize, blob)
            if tag != "ok" or k is None:
                fails.append({"key": "C08|key-history|obj=%s|construct|%s" % (ses["obj"], k), "what": "%s: constructing the %s object raised %s" % (sym, ses["obj"], k), "n": sym})
                continue
            objs = {"k": k}
            for i, op in enumerate(ses["ops"]):
                if op["a"] == "copy":
                    tag, v = nets.call(k.public_copy)
                    nev += 1
                    if tag != "ok":
                        fails.append({"key": "C08|key-history|obj=%s|public_copy|exc:%s" % (ses["obj"], v), "what": "%s: public_copy() raised %s" % (sym, v), "n": sym})
                        break
                    objs["p"] = v
                    continue
                o = objs[op["o"]]
                arg = FORM_ARG[op["f"]]
                allowed = [terms[f] for f in op["allow"]]
                after = "+".join(_op_name(x) for x in ses["ops"][:i]) or "fresh"
                for q, idx, f in (("address", 0, lambda: o.address(is_compressed=arg)), ("hash160", 1, lambda: o.hash160(is_compressed=arg))):
                    tag, v = nets.call(f)
                    nev += 1
                    if tag != "ok":
                        # a hierarchical node may refuse the uncompressed form; a plain key may not refuse anything
                        if ses["obj"] == "bip32" and "u" in op["allow"]:
                            continue
                        fails.append({"key": "C08|key-history|obj=%s|%s|ask=%s|after=%s|exc:%s" % (ses["obj"], q, _op_name(op), after, v),
                                      "what": "%s, %s made from secret exponent %x (marked %s): after [%s], %s(%s) of %s raised %s" % (
                                          sym, ses["obj"], se, "compressed" if ses["marked"] else "uncompressed", after, q, op["f"], op["o"], v),
                                      "n": sym, "session": ses})
                    elif v not in [a[idx] for a in allowed]:
                        is_other = [f2 for f2 in ("c", "u") if terms[f2][idx] == v]
                        fails.append({"key": "C08|key-history|obj=%s|%s|ask=%s|after=%s|got=%s" % (ses["obj"], q, _op_name(op), after, "form-" + is_other[0] if is_other else "other"),
                                      "what": "%s, %s made from secret exponent %x (marked %s): after [%s], %s(%s) of %s = %r; the key's %s in form %s is %r" % (
                                          sym, ses["obj"], se, "compressed" if ses["marked"] else "uncompressed", after, q, op["f"],
                                          "the key" if op["o"] == "k" else "its public copy", v.hex() if isinstance(v, bytes) else v, q,
                                          "/".join(op["allow"]), [a[idx].hex() if idx else a[idx] for a in allowed]),
                                      "n": sym, "session": ses})
    return nev, fails


# ---------------------------------------------------------------- replay: classification
def _allowed_match(info, rebuilt, rec):
    """is pycoin's projected report one of the answers Classify.tla allows for this script?"""
    for a in rec["allowed"]:
        if a["kind"] != info["kind"]:
            continue
        if a["kind"] == "unknown":
            return True
        if a["kind"] == "nulldata":
            if info["rest"] == nets.script_bytes(a["rest"]):
                return True
            continue
        if a["kind"] == "multisig":
            if info["m"] == a["m"] and info["keys"] == [[k["len"], k["id"]] for k in a["keys"]]:
                return True
            continue
        if info["h"] == [a["h"]["len"], a["h"]["id"]]:
            return True
    return False


def _cls_chunk(args):
    recs, syms = args
    fails = []
    nev = 0
    nstd = 0
    for i, rec in enumerate(recs):
        script = nets.script_bytes(rec["s"])
        big = any(t[0] == "push" and t[2] == "big" for t in rec["s"])
        if any(a["kind"] != "unknown" for a in rec["allowed"]):
            nstd += 1
        for sym in syms:
            N = nets.net(sym)
            tag, info, rebuilt = nets.classify(N, script)
            nev += 1
            allowed_kinds = "+".join(sorted({a["kind"] for a in rec["allowed"]}))
            if tag != "ok":
                fails.append({"key": "C08|classify|%s" % tag, "what": "info_for_script / for_info(%s) on %s: %s" % (script.hex(), sym, tag), "script": script.hex()})
                continue
            bad = not _allowed_match(info, rebuilt, rec)
            if bad:
                fails.append({"key": "C08|classify|reported=%s|allowed=%s|nonminimal-push=%s" % (info["kind"], allowed_kinds, big),
                              "what": "info_for_script(%s) [%s] reports %s with parameters %s; a faithful classifier may only answer %s" % (
                                  script.hex(), nets.script_text(rec["s"]), info["kind"], {k: v for k, v in info.items() if k != "kind" and v}, rec["allowed"]),
                              "script": script.hex(), "net": sym})
            # (the two literal clauses below are consequences when the report itself is already wrong: reported once)
            if not bad and info["kind"] != "unknown" and rebuilt != script:
                bad = True
                fails.append({"key": "C08|classify|rebuild-differs|reported=%s|nonminimal-push=%s" % (info["kind"], big),
                              "what": "info_for_script(%s) reports %s but for_info(info) = %s: rebuilding does not reproduce the original bytes" % (
                                  script.hex(), info["kind"], rebuilt.hex()), "script": script.hex(), "net": sym})
            # the address of a script must denote that script
            if bad or nets.is_stub(N):
                continue
            tag2, addr = nets.call(N.address.for_script, script)
            nev += 1
            if tag2 != "ok":
                fails.append({"key": "C08|address.for_script|exc=%s" % addr, "what": "address.for_script(%s) raised %s" % (script.hex(), addr), "script": script.hex()})
            elif isinstance(addr, str) and addr != "???" and not addr.startswith("(nulldata") and not nets.is_stub(N):
                tag3, back = nets.call(lambda: N.parse.address(addr))
                bs = None
                if tag3 == "ok" and back is not None:
                    bs = nets.call(back.script)[1]
                # a p2pk script is shown with the address of its key hash ("this isn't really a p2pkh"): not an address of the script
                if info["kind"] != "p2pk" and bs != script:
                    fails.append({"key": "C08|address.for_script|denotes-other-script|reported=%s|nonminimal-push=%s" % (info["kind"], big),
                                  "what": "address.for_script(%s) = %s, which parses to the script %s" % (script.hex(), addr, bs.hex() if isinstance(bs, bytes) else bs),
                                  "script": script.hex(), "net": sym})
    return nev, fails, nstd


class _Streamer:
    """feeds TLC records to worker processes in chunks while TLC is still running"""

    def __init__(self, func, extra, size=600):
        import multiprocessing as mp
        self.pool = mp.get_context("fork").Pool(NPROC)
        self.func, self.extra, self.size = func, extra, size
        self.buf, self.pending, self.results, self.n = [], [], [], 0

    def feed(self, rec):
        self.buf.append(rec)
        self.n += 1
        if len(self.buf) >= self.size:
            self.flush()

    def flush(self):
        if self.buf:
            self.pending.append(self.pool.apply_async(self.func, ((self.buf, self.extra),)))
            self.buf = []
        while len(self.pending) > 6 * NPROC:
            self.results.append(self.pending.pop(0).get())

    def finish(self):
        self.flush()
        for p in self.pending:
            self.results.append(p.get())
        self.pool.close()
        self.pool.join()
        return self.results


# ---------------------------------------------------------------- traces
def _structure(text):
    """the abstract structure of a text (Address.tla's S), by the independent decoders"""
    for chk in nets.CHECKSUMS:
        p = nets.b58check_dec_chk(chk, text)
        if p is not None:
            return {"e": "b58c", "d": list(p), "hrp": [], "ver": 0, "var": chk}
    s = nets.segwit_dec(text)
    if s is not None:
        return {"e": "seg", "d": list(s[2]), "hrp": [ord(c) for c in s[0]], "ver": s[1], "var": s[3]}
    s = nets.segwit_syms(text)
    if s is not None:
        # a Bech32 text with a version symbol whose further symbols are not known to regroup to bytes: the symbols
        # themselves are logged, TLC decides (Trace_Address.Norm) what the text is
        return {"e": "segx", "d": list(s[2]), "hrp": [ord(c) for c in s[0]], "ver": s[1], "var": s[3]}
    return {"e": "other", "d": [], "hrp": [], "ver": 0, "var": ""}


def record_traces(seed, count):
    """sessions: one text (a real serialisation, possibly mutated) pushed through parse.address of
    several networks via ONE parseable_str object (its cache is the state), plus the encoder calls"""
    rnd = random.Random(seed)
    allnets = [(s, n) for s, n in nets.networks_ext() if not nets.is_stub(n)]
    tbl = {t["sym"]: t for t in nets.table() + nets.table_ext()}
    multib = [s for s, _ in allnets if len(tbl[s]["p2pkh"]) > 1 or len(tbl[s]["p2sh"]) > 1]
    traces = []
    for ti in range(count):
        sym, N = rnd.choice(allnets) if rnd.random() < 0.7 else (lambda s: (s, nets.net(s)))(rnd.choice(multib))
        kinds = [k for k in KINDS if (tbl[sym]["p2pkh"] if k == "p2pkh" else tbl[sym]["p2sh"] if k == "p2sh" else tbl[sym]["hrp"])]
        kind = rnd.choice(kinds)
        hl = 20 if kind in ("p2pkh", "p2sh", "p2wpkh") else 32
        h = bytes(rnd.randrange(256) for _ in range(hl))
        if rnd.random() < 0.3:
            # steer the first byte to the second version byte of some multi-byte network
            t2 = tbl[rnd.choice(multib)]
            cand = [p[1] for p in (t2["p2pkh"], t2["p2sh"]) if len(p) > 1]
            h = bytes([rnd.choice(cand)]) + h[1:]
        ev = []
        text = getattr(N.address, ENC_API[kind])(h)
        ev.append({"a": "enc", "n": sym, "kind": kind, "h": list(h), "s": _structure(text), "ok": True, "rk": "", "rh": []})
        mut = rnd.random()
        st = _structure(text)
        if mut < 0.25 and st["e"] == "b58c":
            # other length, checksum recomputed
            d = bytes(st["d"])
            dl = rnd.choice([-1, 1, -2, 12, 13, -20])
            d = d[:dl] if dl < 0 else d + bytes(rnd.randrange(256) for _ in range(dl))
            text = nets.b58check_chk(st["var"], d)
        elif mut < 0.4 and st["e"] == "b58c":
            # version bytes of another network / kind, checksum recomputed
            t2 = tbl[rnd.choice(allnets)[0]]
            pf = rnd.choice([p for p in (t2["p2pkh"], t2["p2sh"], t2["wif"]) if p])
            text = nets.b58check_chk(rnd.choice(sorted(nets.CHECKSUMS)) if rnd.random() < 0.2 else "sha256d", bytes(pf) + h)
        elif mut < 0.55 and st["e"] == "seg":
            ver = rnd.choice([0, 0, 1, 1, 2, 16])
            prog = h if rnd.random() < 0.5 else bytes(rnd.randrange(256) for _ in range(rnd.choice([2, 19, 20, 21, 31, 32, 33, 40])))
            text = nets.segwit("".join(map(chr, st["hrp"])), ver, prog, rnd.choice(["bech32", "bech32m"]))
        elif mut < 0.6:
            text = text[:-1] + ("q" if text[-1] != "q" else "p")    # checksum broken
        elif mut < 0.72 and st["e"] == "seg":
            # the same program spelt with other padding: bits set in the incomplete last group, further symbols
            syms = nets._to5(bytes(st["d"]))
            pb = 5 * len(syms) - 8 * len(st["d"])
            how = rnd.random()
            if pb and how < 0.5:
                syms[-1] |= rnd.randrange(1, 1 << pb)
            else:
                syms += [rnd.choice([0, 0, 1, 16, 31]) for _ in range(rnd.choice([1, 1, 2]))]
            text = nets.bech32_text("".join(map(chr, st["hrp"])), [st["ver"]] + syms, st["var"])
        ps = N.parseable_str_type(text)
        st = _structure(text)
        ms = [sym] + [s for s, _ in rnd.sample(allnets, 6)]
        # networks that share version bytes are the interesting readers
        if st["e"] == "b58c" and st["d"]:
            ms += [s for s, _ in allnets if tbl[s]["p2pkh"][:1] == st["d"][:1] or tbl[s]["p2sh"][:1] == st["d"][:1]][:6]
        for m in ms:
            tag, res = nets.call(nets.net(m).parse.address, ps)
            if tag != "ok":
                ev.append({"a": "dec", "n": m, "kind": "", "h": [], "s": st, "ok": False, "rk": "exc:" + res, "rh": []})
                continue
            if res is None:
                ev.append({"a": "dec", "n": m, "kind": "", "h": [], "s": st, "ok": False, "rk": "none", "rh": []})
            else:
                info = res.info()
                k = nets.PYCOIN_KIND.get(info.get("type"), "other")
                hh = info.get("hash160") or info.get("hash256") or info.get("synthetic_key") or b""
                ev.append({"a": "dec", "n": m, "kind": "", "h": [], "s": st, "ok": True, "rk": k, "rh": list(hh)})
        traces.append({"text": text, "ev": ev})
    return traces


def validate_traces(ctx, traces, env):
    path = nets.write_json([{"ev": t["ev"]} for t in traces], "vf-c08-traces-")
    try:
        r = ctx.tlc("Trace_Address", "Trace_Address", workers=1, env=dict(env, TRACE_FILE=path), count=False, timeout=1500)
    finally:
        os.unlink(path)
    for rec in r.records:
        if isinstance(rec, dict) and rec.get("k") == "rejected":
            if rec["n"] != len(traces):
                raise MachineryError("trace run saw %s traces, %d were sent" % (rec["n"], len(traces)))
            return {int(i) - 1: int(l) for i, l in rec["at"]}
    raise MachineryError("trace run printed no verdict: %s" % r.raw_tail[-5:])


def _trace_key(ev):
    s = ev["s"]
    return "C08|trace|%s|enc=%s|outcome=%s" % (ev["a"], s["e"], ev["rk"] if ev["a"] == "dec" else "text")


# ---------------------------------------------------------------- main
def run(ctx):
    q = ctx.quick
    only = getattr(ctx, "only", None)

    def stage(name):
        return only is None or name in only
    ctx.rule = ("model: Address/Classify lemmas on synthetic tables; cases: every network x address kind x hash class (first byte in "
                "{0x00, 0x11, 0xff} + every second version byte of the table) + mutated texts, each read by all networks; scripts: all token "
                "sequences <= MaxLen and the edit neighbourhood of the templates; distinct_nontrivial = (network, kind, first byte) classes of good "
                "addresses + scripts for which a standard kind is allowed")
    ctx.assumptions += ["Base58Check and Bech32 are injective on valid texts (C11)", "SHA-256 / RIPEMD-160 collision-free",
                        "Groestlcoin-family Base58 texts are out of reach: groestlcoin_hash is not installed (L3); a network built the same way "
                        "(ParseAPI.parse_b58_hashed override + AddressAPI.b2a hook) with a computable checksum function stands in for them",
                        "the prefix table is configuration: it is read from network.parse of every registered symbol"]
    tbl = nets.table() + nets.table_ext()
    pts = _key_table()
    tpath = nets.write_json(tbl, "vf-c08-table-")
    kpath = nets.write_json([{"secc": list(nets.sec_of(p, True)), "secu": list(nets.sec_of(p, False))} for p in pts], "vf-c08-keys-")
    env = {"NET_TABLE": tpath, "KEY_TABLE": kpath}
    ctx.extra["networks"] = len(tbl)
    ctx.extra["prefix_table"] = {t["sym"]: {k: (bytes(v).hex() if k not in ("hrp", "sec") else "".join(map(chr, v)))
                                            for k, v in t.items() if isinstance(v, list)} for t in tbl}
    try:
        _run(ctx, q, stage, env, tbl, pts)
    finally:
        os.unlink(tpath)
        os.unlink(kpath)


def _run(ctx, q, stage, env, tbl, pts):
    W = 16
    # ---- R2: evaluators and constants against official vectors
    if nets.b58check(b"\0" + nets.h160(nets.sec_of(nets.G, True))) != VEC_G_COMPRESSED or \
       nets.b58check(b"\0" + nets.h160(nets.sec_of(nets.G, False))) != VEC_G_UNCOMPRESSED or \
       nets.segwit("bc", 0, nets.h160(nets.sec_of(nets.G, True)), "bech32") != VEC_G_SEGWIT or \
       nets.segwit("bc", 1, bytes.fromhex(VEC_P2TR[0]), "bech32m") != VEC_P2TR[1] or \
       nets.b58check_dec(VEC_G_COMPRESSED) != b"\0" + nets.h160(nets.sec_of(nets.G, True)) or \
       nets.segwit_dec(VEC_P2TR[1]) != ("bc", 1, bytes.fromhex(VEC_P2TR[0]), "bech32m"):
        raise MachineryError("term evaluators disagree with the official address vectors")

    # ---- 1. model: lemmas on synthetic tables
    if stage("model"):
        # invariants over the synthetic tables; the ASSUME BrokenTablesBreakTheLemmas of the module (evaluated at
        # every start-up) is the model's own teeth: clash / swap / multi tables must break RoundTrip / Cross / CrossLoose
        ctx.tlc("MC_Address", "MC_Address_lemma", workers=4, env=env)
        ctx.selftest("model_assume_broken_tables_break_lemmas", True)
        if not q:
            ctx.tlc("MC_Address", "MC_Address_lemmareal", workers=W, env=env)
            for t, inv in (("badclash", ("LemmaRoundTrip", "LemmaKindsApart", "LemmaEquiv")), ("badswap", ("LemmaCross",))):
                r = ctx.tlc("MC_Address", "MC_Address_" + t, workers=4, env=env, expect_ok=False, count=False)
                ctx.selftest("model_rejects_table_" + t, (not r.ok) and r.violated in inv)

    # ---- 2a. address cases over the real table
    if stage("cases"):
        r = ctx.tlc("MC_Address", "MC_Address_real", workers=W, env=env, timeout=1500)
        recs = r.by_kind("case")
        # R2: the Bech32 evaluator against the characters TLC computed with Bech32.tla
        nseg = 0
        for rec in recs:
            if rec["text"]["op"] == "chars":
                nseg += 1
                syms = nets._to5(bytes(rec["h"]))
                if rec["pd"]["or"]:
                    syms[-1] |= rec["pd"]["or"]
                hrp = "".join(map(chr, _hrp_of(tbl, rec["n"])))
                mine = nets.bech32_text(hrp, [rec["ver"]] + syms + rec["pd"]["ext"], rec["var"])
                canon = not rec["pd"]["or"] and not rec["pd"]["ext"]
                # (the independent decoder must see a padding rule violation exactly where the rule book saw one:
                #  a non-canonical spelling is either no segwit text or a program of another length)
                dec = nets.segwit_dec(mine)
                if mine != nets.ev(rec["text"]) or (canon and nets.segwit(hrp, rec["ver"], bytes(rec["h"]), rec["var"]) != mine) \
                        or (not canon and dec is not None and len(dec[2]) == len(rec["h"])):
                    raise MachineryError("Bech32 evaluator disagrees with Bech32.tla on %s" % rec)
        # R2: the BIP173 / BIP350 vectors are among the cases TLC printed?  (hash of G is not; checked via keys below)
        ctx.extra["segwit_strings_cross_checked"] = nseg
        nf = _run_cases(ctx, recs, "address-cases")
        ctx.log("address cases: %d texts x %d reading networks, %d disagreements (incl. known)" % (len(recs), len(tbl), nf))
        ctx.extra["segwit_padding_variants"] = sum(1 for x in recs if x["pd"]["or"] or x["pd"]["ext"])
        good = [x for x in recs if x["good"] and x["text"]["op"] == "b58c" and x["text"]["chk"] == "sha256d"]
        ctx.sample({"case": {k: good[0][k] for k in ("n", "kind", "h", "text", "script")}, "text": nets.ev(good[0]["text"]),
                    "accepted_by": [e["m"] for e in good[0]["expect"] if e["ok"]]})
        # binding self-test: corrupt one expectation
        import copy
        bad = copy.deepcopy(good[0])
        for e in bad["expect"]:
            if e["m"] == bad["n"]:
                e["h"] = [(e["h"][0] + 1) % 256] + e["h"][1:]
        _, fails, _ = _case_chunk([bad])
        ctx.selftest("replay_rejects_corrupted_expectation", any("parse.address" in f["key"] for f in fails))
        bad = copy.deepcopy(good[0])
        bad["text"]["a"]["a"][0] = (bad["text"]["a"]["a"][0] + 1) % 256
        _, fails, _ = _case_chunk([bad])
        ctx.selftest("replay_rejects_corrupted_text", len(fails) > 0)

    # ---- 2b. keys
    if stage("keys"):
        r = ctx.tlc("MC_Address", "MC_Address_keys", workers=4, env=env)
        recs = r.by_kind("key")
        # R2: the address terms against the official vectors (key 1 = G; the BIP49 / BIP84 vector keys are the last two)
        byk = {(x["n"], x["key"]): x for x in recs}
        g = byk[("BTC", 1)]
        v49 = byk[(VEC_BIP49[1], len(pts) - 1)]
        v84 = byk[(VEC_BIP84[1], len(pts))]
        if (nets.ev_text(g["addr_c"][0]), nets.ev_text(g["addr_u"][0]), nets.ev_text(g["bip84"][0])) != (VEC_G_COMPRESSED, VEC_G_UNCOMPRESSED, VEC_G_SEGWIT) \
                or nets.ev_text(v49["bip49"][0]) != VEC_BIP49[2] or nets.ev_text(v84["bip84"][0]) != VEC_BIP84[2]:
            raise MachineryError("address terms of Address.tla disagree with the official Key / BIP49 / BIP84 vectors")
        for nev, fails in pmap(_key_cases, [(c, pts) for c in split(recs, NPROC)], chunk=1):
            ctx.case(None, nev)
            for f in fails:
                ctx.fail(f["key"], f["what"], f)
        ctx.replayed += len(recs)
        ctx.action("replay.keys", len(recs))
        ctx.sample({"key_case": g, "addr_c": nets.ev_text(g["addr_c"][0])})
        # ---- sessions on one key object (history dimension): the answers come from the "key" records above (terms) and
        #      from the session records (which form's answer each question may get)
        rh = ctx.tlc("MC_Address", "MC_Address_hist", workers=4, env=env)
        sessions = rh.by_kind("hist")
        kis = (1, len(KEY_SECRETS)) if q else tuple(range(1, len(KEY_SECRETS) + 1))
        targets = []
        for x in recs:
            if x["key"] in kis and x["addr_c"] and x["addr_c"][0]["chk"] in nets.CHECKSUMS and not nets.is_stub(nets.net(x["n"])):
                terms = {f: (nets.ev_text(x[a][0]), nets.ev(x[a][0]["a"]["a"][1])) for f, a in (("c", "addr_c"), ("u", "addr_u"))}
                targets.append((x["n"], x["key"], terms))
        if not sessions or not targets:
            raise MachineryError("no key sessions to replay")
        nfh = 0
        for nev, fails in pmap(_hist_chunk, [(c, sessions) for c in split(targets, NPROC * 2)], chunk=1):
            ctx.case(None, nev)
            for f in fails:
                nfh += 1
                ctx.fail(f["key"], f["what"], f)
        for ses in sessions:
            ctx.case(("key-session", ses["obj"], ses["marked"], "+".join(_op_name(o) for o in ses["ops"])), 0)
        ctx.replayed += len(sessions) * len(targets)
        ctx.action("replay.key-sessions", len(sessions) * len(targets))
        ctx.log("key sessions: %d sessions x %d (network, key) pairs, %d disagreements (incl. known)" % (len(sessions), len(targets), nfh))
        ctx.sample({"key_session": sessions[len(sessions) // 2]})
        # binding self-test: a session whose allowed form is swapped must be rejected (canned: BTC, G)
        import copy
        bad = copy.deepcopy([x for x in sessions if x["obj"] == "key" and len(x["ops"]) == 1 and x["ops"][0]["f"] == "u"][0])
        bad["ops"][0]["allow"] = ["c"]
        _, fails = _hist_chunk(([t for t in targets if t[0] == "BTC"][:1], [bad]))
        ctx.selftest("replay_rejects_corrupted_key_session", any(f["key"].startswith("C08|key-history|obj=key|address|ask=k:u") for f in fails))

    # ---- 2c. classification
    if stage("classify"):
        syms_all = [s for s, _ in nets.networks_ext()]
        neigh = []
        for cfg in (["MC_Classify_m", "MC_Classify_q", "MC_Classify_nq"] if q else ["MC_Classify_m", "MC_Classify_t", "MC_Classify_nt"]):
            st = _Streamer(_cls_chunk, ["BTC"] if cfg != "MC_Classify_m" else ["BTC", "BCH", "LTC", "DOGE"])
            cnt = [0]

            def on(rec, st=st, cnt=cnt, cfg=cfg, neigh=neigh):
                if rec.get("k") == "cls":
                    st.feed(rec)
                    if cfg == "MC_Classify_nq" or (cfg == "MC_Classify_nt" and cnt[0] % 40 == 0):
                        neigh.append(rec)
                    cnt[0] += 1
                    if cnt[0] % 7919 == 5:
                        ctx.sample({"script": rec})
            ctx.tlc("MC_Classify", cfg, workers=W, on_record=on, keep_records=False, timeout=3000)
            nf = 0
            nstd = 0
            for nev, fails, ns in st.finish():
                ctx.case(None, nev)
                nstd += ns
                for f in fails:
                    nf += 1
                    ctx.fail(f["key"], f["what"], f)
            ctx.replayed += st.n
            ctx.action("replay." + cfg, st.n)
            ctx.extra["scripts_with_standard_kind." + cfg] = nstd
            ctx.log("classification %s: %d scripts (%d with a standard kind), %d disagreements (incl. known)" % (cfg, st.n, nstd, nf))
        # every network: the templates' neighbourhood (the classifier is shared code, but script_tools is per network)
        recs = neigh
        sub = recs if not q else recs[::5]
        for nev, fails, ns in pmap(_cls_chunk, [(c, syms_all) for c in split(sub, NPROC * 2)], chunk=1):
            ctx.case(None, nev)
            for f in fails:
                ctx.fail(f["key"], f["what"], f)
        std = [x for x in recs if any(a["kind"] != "unknown" for a in x["allowed"])]
        for x in std:
            ctx.case(("script", json.dumps(x["s"])), 0)
        # binding self-test
        import copy
        bad = copy.deepcopy([x for x in recs if x["addr"] == "p2pkh"][0])
        bad["allowed"][0]["kind"] = "p2sh"
        _, fails, _ = _cls_chunk(([bad], ["BTC"]))
        ctx.selftest("replay_rejects_corrupted_classification", any(f["key"].startswith("C08|classify|reported=p2pkh") for f in fails))

    # ---- 3. traces
    if stage("traces"):
        ntr = 400 if q else 4000
        traces = record_traces(ctx.seed * 104729 + 8, ntr)
        nrej = 0
        accepted = []
        for chunk in split(traces, max(1, len(traces) // 1000)):
            rej = validate_traces(ctx, chunk, env)
            accepted += [t for i, t in enumerate(chunk) if i not in rej]
            ctx.traces += len(chunk) - len(rej)
            ctx.case(None, sum(len(t["ev"]) for t in chunk))
            for i, l in sorted(rej.items()):
                nrej += 1
                t = chunk[i]
                e = t["ev"][l - 1]
                ctx.fail(_trace_key(e), "recorded %s event is not allowed by Address.tla: text %r on %s -> %s %s" % (
                    e["a"], t["text"], e["n"], e["rk"], bytes(e["rh"]).hex()), {"text": t["text"], "event": e, "trace": t["ev"]})
        ctx.log("traces: %d sessions, %d rejected (incl. known)" % (len(traces), nrej))
        ctx.sample({"trace": traces[0]})
        # binding self-test: corrupt one logged field
        import copy
        good = [t for t in accepted if any(e["a"] == "dec" and e["rk"] in KINDS for e in t["ev"])]
        okt = good[1:2]
        if good:
            base = good[0]
            b1 = copy.deepcopy(base)
            for e in b1["ev"]:
                if e["a"] == "dec" and e["rk"] in KINDS:
                    e["rh"][0] = (e["rh"][0] + 1) % 256
                    break
            b2 = copy.deepcopy(base)
            b2["ev"][0]["s"]["d"][-1] = (b2["ev"][0]["s"]["d"][-1] + 1) % 256
            rej = validate_traces(ctx, [b1, b2] + okt, env)
            ctx.selftest("trace_rejects_corrupted_field", 0 in rej and 1 in rej and (not okt or 2 not in rej))
    ctx.exhaustive = True


def _hrp_of(tbl, sym):
    for t in tbl:
        if t["sym"] == sym:
            return t["hrp"]
    raise KeyError(sym)


def replay(ctx, obj):
    """./check C08 --replay FILE: re-run the recorded case on the current tree and show what happens"""
    d = obj.get("detail") or {}
    print("key :", obj.get("key"))
    print("what:", obj.get("what"))
    if d.get("text") is not None:
        text = d["text"]
        print("structure of the text:", _structure(text))
        for sym in sorted({d.get("m"), d.get("n"), (d.get("event") or {}).get("n")} - {None}):
            tag, res = nets.call(nets.net(sym).parse.address, text)
            print("%s.parse.address(%r) -> %s" % (sym, text, res if tag != "ok" else _got(res)))
    if d.get("script"):
        s = bytes.fromhex(d["script"])
        N = nets.net(d.get("net", "BTC"))
        print("info_for_script(%s) -> %s ; address.for_script -> %r" % (d["script"], nets.classify(N, s)[:2], nets.call(N.address.for_script, s)))
