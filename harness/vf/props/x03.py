"""X03 - the key utility reports one consistent key in every representation (extension specification).

spec/X03_KuTable.tla   the table of `ku` as a record of terms over one abstract key; the command's pipeline
spec/X03_KuConc.tla    terms -> printed values (facts for hash/EC), printed values -> parser; feed-back lemmas
spec/X03_MC_KuCases    TLC enumerates invocations (form x key x network x options x sub-key spelling)
spec/X03_MC_KuTable    TLC prints the tables (templates) the cases refer to, lemmas under every option set
spec/X03_Trace_Ku      recorded seeded invocations are runs of the same pipeline

Stages (./check X03 --only a,b): model, replay, helpers, traces, truth, selftest.
"""
from __future__ import annotations

import json
import os
import random

from vf.ctx import MachineryError, ROOT
from vf.drv import bip32 as D
from vf.drv import nets
from vf.drv import x03_ku as X
from vf.par import NPROC, split

PID = "X03"
FINDINGS = os.path.join(ROOT, "ext", "X03_findings.json")


# ---------------------------------------------------------------- findings of an extension live in ext/
def _wrap_fail(ctx):
    known = {}
    if os.path.exists(FINDINGS):
        for e in json.load(open(FINDINGS))["findings"]:
            if e.get("property") == PID and e.get("status") == "known":
                known[e["key"]] = e
    real = ctx.fail

    def fail(key, what, detail=None):
        if key in known:
            if key not in ctx.known_seen:
                ctx.known_seen[key] = what
                print("KNOWN-FINDING: property=%s %s [%s]" % (PID, known[key].get("what", what), key), flush=True)
            return False
        return real(key, what, detail)
    ctx.fail = fail
    return known


# ---------------------------------------------------------------- expectations from templates
_TPLS = {}          # canonical template key -> rows (set before the workers fork)


def tkey(t):
    return json.dumps(t, sort_keys=True, separators=(",", ":"))


def expected_rows(tpl, node, item, ev=None):
    """every row of the table of one key: [(k, label, legacy, value)] - template rows evaluated under the binding"""
    rows = _TPLS.get(tkey(tpl))
    if rows is None:
        raise MachineryError("template %s was not printed by X03_MC_KuTable" % tkey(tpl))
    b = X.Binding(ev)
    b.bind(tpl, node)
    return [(r["k"], r["lab"], r["legacy"], b.value(r["v"], item)) for r in rows]


_FORM_CLASS = {"se_dec": "prvkey", "se_hex": "prvkey", "wif_c": "prvkey", "wif_u": "prvkey",
               "sec_c": "pubkey", "sec_u": "pubkey", "hexsec_c": "pubkey", "hexsec_u": "pubkey", "pair_xy": "pubkey", "pair_par": "pubkey", "pair_hexpar": "pubkey",
               "xprv": "bip32", "xpub": "bip32", "yprv": "bip49", "ypub": "bip49", "zprv": "bip84", "zpub": "bip84", "P": "seed", "H": "seed",
               "E_seed": "electrum", "E_prv": "electrum", "E_pub": "electrum",
               "a_p2pkh": "address", "a_p2sh": "address", "a_p2wpkh": "address", "a_p2wsh": "address", "a_p2tr": "address", "hash160": "address"}


def _cls(case, t=None):
    """class-level signature of an enumerated case: the kind of item, the modifiers that change what is shown, the class of
    key whose table is shown (the rendering mode and the rows concerned are part of the kind of disagreement; the exact
    command line is in `what`)"""
    o = case["opts"]
    item = _FORM_CLASS[case["form"]]
    s = "item=%s%s" % (item, "|-P" if o["pub"] else "")
    if case["ov"]:
        s += "|override"
    if item == "electrum" and not case["sub"]:
        s += "|no-subkey"
    elif case["sub"]:
        s += "|sub"
    if t is not None:
        s += "|shows=%s%s%s" % (t["tpl"]["cls"], ":" + t["tpl"]["fam"] if t["tpl"]["fam"] else "", ":prv" if t["tpl"]["prv"] else ":pub")
    return s


_GROUPS = (("head", ("input", "network", "symbol")),
           ("hk", ("wallet_key", "public_version", "tree_depth", "fingerprint", "parent_fingerprint", "child_index", "chain_code", "private_key")),
           ("secret", ("secret_exponent", "secret_exponent_hex", "wif", "wif_uncompressed")),
           ("public", ("public_pair_x", "public_pair_y", "public_pair_x_hex", "public_pair_y_hex", "y_parity", "key_pair_as_sec",
                       "key_pair_as_sec_uncompressed")),
           ("address", ("hash160", "hash160_uncompressed", "address", "address_uncompressed", "address_segwit", "p2sh_segwit",
                        "p2sh_segwit_script")))
_GROUP_OF = {k: g for g, ks in _GROUPS for k in ks}


def _groups(keys):
    """class-level description of a set of differing rows: the groups of the table they belong to"""
    gs = {_GROUP_OF.get(k, "legacy" if "_address" in k else "other") for k in keys}
    return "+".join(g for g in ("head", "hk", "secret", "public", "address", "legacy", "other") if g in gs)


_KEYLESS = {"input", "network", "symbol", "tree_depth", "child_index", "private_key", "parent_fingerprint", "chain_code", "y_parity"}


def _another_key(differing, shown):
    """do ALL the shown fields that depend on the key material differ (and at least two of them)?"""
    dep = [k for k in shown if k not in _KEYLESS]
    return len(dep) >= 2 and set(dep) <= set(differing)


def compare_chunk(mode, lines, want, shown):
    """-> None or (what-kind, description).  want: all rows of the table; shown: keys that must appear, in order"""
    byk = {k: (lab, v) for k, lab, lg, v in want}
    if mode == "json":
        d = X.read_json(lines)
        if d is None:
            return "json-unreadable", "the JSON form is not a JSON object"
        exp = {k: byk[k][1] for k in shown}
        if d != exp:
            extra, missing = sorted(set(d) - set(exp)), sorted(set(exp) - set(d))
            diff = sorted(k for k in exp if k in d and d[k] != exp[k])
            if not extra and not missing and _another_key(diff, exp):
                return "json:another-key", "the JSON form shows another key: every field that depends on the key differs, e.g. %r, expected %r" % (
                    {k: d[k] for k in diff[:3]}, {k: exp[k] for k in diff[:3]})
            kind = "json:" + ";".join(x for x in ("extra=" + _groups(extra) if extra else "", "missing=" + _groups(missing) if missing else "",
                                                  "differs=" + _groups(diff) if diff else "") if x)
            ks = (extra + missing + diff)[:5]
            return kind, "JSON differs at %s: got %r, expected %r" % (ks, {k: d.get(k) for k in ks}, {k: exp.get(k) for k in ks})
        return None
    if mode == "text":
        rows = X.read_text(lines)
        if rows is None:
            return "text-unreadable", "the text form has a line that is not `label : value`"
        exp = [byk[k] for k in shown]
        if rows != exp:
            if [r[0] for r in rows] != [e[0] for e in exp]:
                gl, el = [r[0] for r in rows], [e[0] for e in exp]
                odd = [shown[i] for i, e in enumerate(el) if e not in gl] or ["order"]
                return "text:labels=" + _groups(odd), "the labels of the text form are %r, expected %r" % (gl, el)
            bad = [shown[i] for i in range(len(exp)) if rows[i] != exp[i]]
            if _another_key(bad, shown):
                return "text:another-key", "the text form shows another key: every field that depends on the key differs, e.g. %r, expected %r" % (
                    [rows[shown.index(k)] for k in bad[:3]], [byk[k] for k in bad[:3]])
            return "text:differs=" + _groups(bad), "text differs at %s: got %r, expected %r" % (
                bad[:5], [rows[shown.index(k)] for k in bad[:5]], [byk[k] for k in bad[:5]])
        return None
    if mode == "single":
        exp = byk[shown[0]][1]
        if lines != [exp]:
            return "single:" + _groups([shown[0]]), "single-field output %r, expected %r (%s)" % (lines, exp, shown[0])
        return None
    # none: nothing of the key may be shown
    vals = {v for k, lab, lg, v in want if k not in ("input", "network", "symbol") and len(v) >= 8}
    if any(v in lines[0] for v in vals):
        return "none-shows-value", "a field value is printed although no selected field exists: %r" % lines
    return None


def check_case(case, fails, stats):
    item = nets.text_of(case["t"])
    argv = X.argv_of(case, item)
    ran = X.run_ku(argv)
    stats["runs"] += 1
    tabs = case["tables"]
    ev = D.Evaluator()

    def fail(kind, what, t=None):
        fails.append({"key": "X03|replay|%s|%s" % (_cls(case, t), kind), "what": "ku %s: %s" % (" ".join(argv), what), "cid": case.get("cid"),
                      "argv": argv, "stdout": ran.out[:3000], "stderr": ran.err[:500], "exc": ran.exc})

    if case["st"] == "cantparse":
        if ran.exc or ran.out.strip():
            fail("unparsable-shows", "the item denotes nothing yet something is printed / raised (%s)" % ran.exc)
        return
    first_ref = next((i for i, t in enumerate(tabs) if t["refused"]), None)
    if first_ref is None:
        if ran.exc or ran.err:
            fail("raises:%s" % (ran.exc or "stderr"), "raises %s / writes %r to stderr" % (ran.exc, ran.err[:200]), tabs[0] if tabs else None)
            return
        cands = [tabs]
    else:
        if not (ran.exc or ran.err):
            fail("refused-path-shown", "a hardened sub-key of a public key is shown", None)
            return
        cands = [tabs[:first_ref], [t for t in tabs if not t["refused"]]]
    chunks = None
    for cand in cands:
        chunks = X.split_outputs(ran.out, [t["mode"] for t in cand])
        if chunks is not None:
            tabs = cand
            break
    if chunks is None:
        fail("shape", "stdout does not consist of %d printout(s) of modes %s" % (len(cands[0]), [t["mode"] for t in cands[0]][:6]), tabs[0] if tabs else None)
        return
    for t, lines in zip(tabs, chunks):
        try:
            want = expected_rows(t["tpl"], t["node"], item, ev)
        except D.EvalError as e:
            raise MachineryError("cannot evaluate the expected table of %s: %s" % (argv, e))
        stats["tables"] += 1
        stats["classes"].add((_cls(case, t), t["tpl"]["net"]))
        bad = compare_chunk(t["mode"], lines, want, t["rows"])
        if bad:
            fail(bad[0], bad[1], t)
            continue
        # feeding the printed fields back: each denotes the object the spec says, on the same network
        byk = {k: v for k, lab, lg, v in want}
        for rf in t["refeed"]:
            text2 = byk[rf["row"]]
            if len(text2) == 40 and all(c in "0123456789abcdefABCDEF" for c in text2):
                continue        # would be read as a hash160 (documented input form), not as a number
            want2 = expected_rows(rf["tpl"], rf["node"], text2, ev)
            r2 = X.run_ku(["-j", "-n", t["tpl"]["net"], text2])
            stats["runs"] += 1
            stats["refeeds"] += 1
            if r2.exc or r2.err:
                fail("refeed:%s|raises:%s" % (rf["row"], r2.exc or "stderr"), "the printed %s %r fed back: raises %s / stderr %r" % (
                    rf["row"], text2, r2.exc, r2.err[:200]), t)
                continue
            ch = X.split_outputs(r2.out, ["json"])
            bad = ("shape", "no single JSON object") if ch is None else compare_chunk("json", ch[0], want2, [k for k, lab, lg, v in want2])
            if bad:
                fail("refeed:%s|%s" % (rf["row"], bad[0]), "the printed %s %r fed back (ku -j -n %s): %s" % (rf["row"], text2, t["tpl"]["net"], bad[1]), t)


def check_pair(c1, c2, fails, stats):
    """two enumerated items with the same options in ONE invocation: the items are independent - what is printed is what
    each prints alone, one after the other (an option must not wear off, a value must not leak from one item to the next)"""
    items = [nets.text_of(c1["t"]), nets.text_of(c2["t"])]
    argv = X.argv_of(c1, items[0]) + [items[1]]
    ran = X.run_ku(argv)
    stats["runs"] += 1
    tabs = [(t, items[0]) for t in c1["tables"]] + [(t, items[1]) for t in c2["tables"]]

    def fail(kind, what):
        fails.append({"key": "X03|replay|several-items|%s+%s|%s" % (_cls(c1), _cls(c2), kind), "what": "ku %s: %s" % (" ".join(argv), what),
                      "argv": argv, "stdout": ran.out[:3000], "stderr": ran.err[:500], "exc": ran.exc})
    if ran.exc or ran.err:
        return fail("raises:%s" % (ran.exc or "stderr"), "raises %s / writes %r to stderr" % (ran.exc, ran.err[:200]))
    chunks = X.split_outputs(ran.out, [t["mode"] for t, it in tabs])
    if chunks is None:
        return fail("shape", "stdout does not consist of the %d printouts of the two items" % len(tabs))
    ev = D.Evaluator()
    for (t, it), lines in zip(tabs, chunks):
        bad = compare_chunk(t["mode"], lines, expected_rows(t["tpl"], t["node"], it, ev), t["rows"])
        stats["tables"] += 1
        if bad:
            return fail(("item2:" if it is items[1] else "item1:") + bad[0], bad[1])


def _chunk(cases):
    fails = []
    stats = {"runs": 0, "tables": 0, "refeeds": 0, "classes": set()}
    try:
        for c in cases:
            if isinstance(c, tuple):
                check_pair(c[0], c[1], fails, stats)
            elif c["st"] != "open":
                check_case(c, fails, stats)
    except MachineryError as e:
        return ("machinery", str(e))
    stats["classes"] = sorted(stats["classes"])
    return ("ok", fails, stats)


def make_pairs(cases, rnd, limit):
    """pairs of enumerated cases that share every option (so that they can be one command line)"""
    groups = {}
    for c in cases:
        if c["st"] == "ok" and c["tables"] and not any(t["refused"] for t in c["tables"]) and c["form"] != "E_seed":
            sig = json.dumps([c["nopt"], c["ov"], c["sub"], c["opts"]], sort_keys=True)
            groups.setdefault(sig, []).append(c)
    pairs = []
    for sig in sorted(groups):
        g = groups[sig]
        rnd.shuffle(g)
        pairs += [(g[i], g[i + 1]) for i in range(0, len(g) - 1, 2)]
    rnd.shuffle(pairs)
    # every option signature at least once, then up to the limit
    seen, first, rest = set(), [], []
    for p in pairs:
        sig = json.dumps([p[0]["nopt"] != "", p[0]["ov"] != "", bool(p[0]["sub"]), p[0]["opts"]], sort_keys=True)
        (rest if sig in seen else first).append(p)
        seen.add(sig)
    return (first + rest)[:limit]


# ---------------------------------------------------------------- stages
def stage_model(ctx, env, q):
    """TLC: the cases (with the pipeline / table / literal-key lemmas), then the templates they name"""
    cases = []
    r = ctx.tlc("X03_MC_KuCases", "X03_MC_KuCases_q" if q else "X03_MC_KuCases_t", workers=8, env=env,
                on_record=lambda rec: cases.append(rec) if rec.get("k") == "case" else None, keep_records=False, timeout=3000)
    if not cases:
        raise MachineryError("X03_MC_KuCases printed no case")
    # teeth of the model: a deliberately wrong operator must break the lemma that speaks about it
    for cfg, inv in (("badwif", "Concrete"), ("badpub", "Tables"), ("badsec", "Concrete"))[:2 if q else 3]:
        rb = ctx.tlc("X03_MC_KuCases", "X03_MC_KuCases_" + cfg, workers=2, env=env, expect_ok=False, count=False, keep_records=False, timeout=600)
        ctx.selftest("model_%s_violates_%s" % (cfg, inv), (not rb.ok) and rb.violated == inv)
    need = {}
    for c in cases:
        for t in c["tables"]:
            if not t["refused"]:
                need.setdefault(tkey(t["tpl"]), t["tpl"])
                for rf in t["refeed"]:
                    need.setdefault(tkey(rf["tpl"]), rf["tpl"])
    # the helper stage wants the single-key tables of every network
    for row in json.load(open(env["NET_TABLE"])):
        if not row["stub"]:
            for prv in (True, False):
                tk = {"cls": "key", "fam": "", "kind": "", "prv": prv, "net": row["sym"], "depth": 0, "cn": {"h": False, "v": 0}}
                need.setdefault(tkey(tk), tk)
    tp = nets.write_json([need[k] for k in sorted(need)], "vf-x03-tpls-")
    try:
        got = []
        ctx.tlc("X03_MC_KuTable", "X03_MC_KuTable", workers=8, env=dict(env, X03_TPLS=tp),
                on_record=lambda rec: got.append(rec) if rec.get("k") == "tpl" else None, keep_records=False, timeout=3000)
    finally:
        os.unlink(tp)
    for rec in got:
        _TPLS[tkey(rec["key"])] = rec["rows"]
    missing = [k for k in need if k not in _TPLS]
    if missing:
        raise MachineryError("templates not printed: %s" % missing[:3])
    return cases


def _run_chunks(ctx, work):
    import multiprocessing as mp
    pool = mp.get_context("fork").Pool(NPROC)
    try:
        res = pool.map(_chunk, split(work, NPROC * 6), chunksize=1)
    finally:
        pool.close()
        pool.join()
    tot = {"runs": 0, "tables": 0, "refeeds": 0}
    allfails = []
    for r in res:
        if r[0] == "machinery":
            raise MachineryError(r[1])
        _, fails, st = r
        for k in tot:
            tot[k] += st[k]
        for c in st["classes"]:
            ctx.case(tuple(c), 0)
        allfails += fails
    ctx.case(None, tot["runs"])
    return tot, allfails


def stage_replay(ctx, cases):
    rnd = random.Random(ctx.seed * 31 + 3)
    cases = list(cases)
    for i, c in enumerate(cases):
        c["cid"] = i
    rnd.shuffle(cases)          # E_seed cases (slow) spread over the workers; order of execution is immaterial
    n_open = sum(1 for c in cases if c["st"] == "open")
    ctx.extra["cases_left_open_by_the_rules"] = n_open
    tot, fails = _run_chunks(ctx, cases)
    for f in fails:
        ctx.fail(f["key"], f["what"], f)
    # two items in one invocation, from the cases that print what they must on their own
    failed = {f["cid"] for f in fails}
    pairs = make_pairs([c for c in cases if c["cid"] not in failed], rnd, 700 if ctx.quick else 5000)
    ctx.extra["two_item_invocations"] = len(pairs)
    tot2, fails2 = _run_chunks(ctx, pairs)
    for f in fails2:
        ctx.fail(f["key"], f["what"], f)
    ctx.replayed += len(cases) - n_open + len(pairs)
    ctx.action("replay.cases", len(cases) - n_open)
    ctx.action("replay.two_items", len(pairs))
    ctx.action("replay.tables", tot["tables"] + tot2["tables"])
    ctx.action("replay.refeeds", tot["refeeds"])
    ctx.log("replay: %d cases (%d left open) + %d invocations of two items, %d ku runs, %d tables, %d fields fed back, %d disagreements (incl. known)" % (
        len(cases), n_open, len(pairs), tot["runs"] + tot2["runs"], tot["tables"] + tot2["tables"], tot["refeeds"], len(fails) + len(fails2)))


# ---------------------------------------------------------------- helpers of the network object (network.output_for_*)
def stage_helpers(ctx, tbl, pool):
    """network.output_for_secret_exponent / output_for_public_pair yield (key, value, label) rows: the same rows as the
    table of the single key, by the same templates"""
    n = nf = 0
    ev = D.Evaluator()
    for row in tbl:
        if row["stub"]:
            continue
        N = nets.net(row["sym"])
        for kp in pool[:3]:
            se = int.from_bytes(bytes(kp["se"]), "big")
            pair = (int.from_bytes(bytes(kp["x"]), "big"), int.from_bytes(bytes(kp["y"]), "big"))
            node = {"key": {"t": "sum", "ts": [{"t": "b", "v": kp["se"]}]}}
            for prv, fname, arg in ((True, "output_for_secret_exponent", se), (False, "output_for_public_pair", pair)):
                tk = {"cls": "key", "fam": "", "kind": "", "prv": prv, "net": row["sym"], "depth": 0, "cn": {"h": False, "v": 0}}
                want = expected_rows(tk, node if prv else {"key": {"t": "pt", "base": [{"t": "b", "v": [2 + (kp["y"][31] & 1)] + kp["x"]}], "ts": []}}, "", ev)
                groups = ("secret",) if prv else ("public", "address")
                exp = [(k, v, lab) for k, lab, lg, v in want if _GROUP_OF.get(k) in groups or (lg and not prv)]
                f = getattr(N, fname, None)
                if f is None:           # (an optional field of the network object)
                    continue
                tag, got = nets.call(lambda: [tuple(r) for r in f(arg)])
                n += 1
                ok = tag == "ok" and len(got) == len(exp) and all(
                    g[0] == e[0] and g[1] == e[1] and (g[2] if g[2] is not None else g[0].replace("_", " ")) == e[2] for g, e in zip(got, exp))
                if not ok:
                    nf += 1
                    bad = "raises:%s" % got if tag != "ok" else _groups([e[0] for g, e in zip(got, exp) if g[:2] != e[:2]] or ["row-count-or-label"])
                    ctx.fail("X03|helper|%s|%s" % (fname, bad), "%s.%s(%r) yields %r, the table of that key is %r" % (row["sym"], fname, arg, got, exp),
                             {"net": row["sym"], "f": fname, "got": got, "expected": exp})
    ctx.case(None, n)
    ctx.action("replay.helpers", n)
    ctx.log("helpers: %d calls of network.output_for_*, %d disagreements" % (n, nf))


# ---------------------------------------------------------------- traces (code -> spec)
_ROWKEYS = ["wallet_key", "public_version", "tree_depth", "fingerprint", "parent_fingerprint", "child_index", "chain_code", "private_key",
            "secret_exponent", "secret_exponent_hex", "wif", "wif_uncompressed", "public_pair_x", "public_pair_y", "public_pair_x_hex",
            "public_pair_y_hex", "y_parity", "key_pair_as_sec", "key_pair_as_sec_uncompressed", "hash160", "hash160_uncompressed", "address",
            "address_uncompressed", "address_segwit", "p2sh_segwit", "p2sh_segwit_script", "input", "network", "symbol"]


def _rand_item(rnd, row, allow_generic):
    """(form, text) of a random key in a random form, written with the network's prefixes by the independent encoders"""
    se = rnd.choice([rnd.randrange(1, D.N), rnd.randrange(1, D.N), rnd.randrange(1, 1 << rnd.choice((8, 64, 128, 250))), D.N - rnd.randrange(1, 1000)])
    x, y = D.mul_g(se)
    seb, xb, yb = (v.to_bytes(32, "big") for v in (se, x, y))
    secc, secu = bytes([2 + (y & 1)]) + xb, b"\4" + xb + yb
    hasl = lambda t: any(c in "abcdef" for c in t)      # noqa: E731
    forms = ["wif_c", "wif_u", "xprv", "xpub", "a_p2pkh"]
    if row["p2sh"]:
        forms.append("a_p2sh")
    if row["b49prv"] and row["p2sh"]:
        forms += ["yprv", "ypub"]
    if row["b84prv"] and row["hrp"]:
        forms += ["zprv", "zpub"]
    if row["sec"]:
        forms += ["hexsec_c", "hexsec_u"]
    if allow_generic:
        forms += ["se_dec", "se_hex", "sec_c", "sec_u", "pair_xy", "pair_par", "P", "H", "E_prv", "E_pub", "hash160"]
        if rnd.random() < 0.05:
            forms.append("E_seed")
        if row["hrp"]:
            forms += ["a_p2wpkh", "a_p2wsh", "a_p2tr"]
    f = rnd.choice(forms)
    rb = lambda k: bytes(rnd.randrange(256) for _ in range(k))     # noqa: E731
    if f == "se_dec":
        return f, "%d" % se
    if f == "se_hex":
        t = "%x" % se
        return (f, t) if hasl(t) and len(t) != 40 else ("se_dec", "%d" % se)
    if f in ("wif_c", "wif_u"):
        return f, nets.b58check(bytes(row["wif"]) + seb + (b"\1" if f == "wif_c" else b""))
    if f in ("sec_c", "sec_u"):
        t = (secc if f == "sec_c" else secu).hex()
        return (f, t) if hasl(t) else ("se_dec", "%d" % se)
    if f in ("hexsec_c", "hexsec_u"):
        return f, "".join(map(chr, row["sec"])) + (secc if f == "hexsec_c" else secu).hex()
    if f == "pair_xy":
        return f, "%d%s%d" % (x, rnd.choice("/,"), y)
    if f == "pair_par":
        return f, "%d%s%s" % (x, rnd.choice("/,"), "odd" if y & 1 else "even")
    if f in ("xprv", "xpub", "yprv", "ypub", "zprv", "zpub"):
        fam = {"x": "b32", "y": "b49", "z": "b84"}[f[0]]
        depth = rnd.choice((0, 0, 1, 2, 3, 5, 200))
        cn = rnd.choice((0, 1, rnd.randrange(1 << 31), (1 << 31) + rnd.randrange(1 << 31), 0x80000000, 0xFFFFFFFF, 1 << 24))
        body = bytes([depth]) + (b"\0\0\0\0" if depth == 0 else rb(4)) + cn.to_bytes(4, "big") + rb(32) + (b"\0" + seb if f[1:] == "prv" else secc)
        return f, nets.b58check(bytes(row[fam + f[1:]]) + body)
    if f == "P":
        return f, "P:" + "".join(rnd.choice("abcxyz -_.!01Zq") for _ in range(rnd.randrange(1, 20))) + "q"
    if f == "H":
        return f, "H:" + rb(rnd.choice((1, 16, 32, 64))).hex()
    if f == "E_seed":
        return f, "E:" + rb(16).hex()
    if f == "E_prv":
        return f, "E:" + seb.hex()
    if f == "E_pub":
        return f, "E:" + (xb + yb).hex()
    if f == "a_p2pkh":
        return f, nets.b58check(bytes(row["p2pkh"]) + X.h160(secc))
    if f == "a_p2sh":
        return f, nets.b58check(bytes(row["p2sh"]) + rb(20))
    if f == "hash160":
        t = rb(20).hex()
        return f, t
    hrp = "".join(map(chr, row["hrp"]))
    if f == "a_p2wpkh":
        return f, nets.segwit(hrp, 0, X.h160(secc), "bech32")
    if f == "a_p2wsh":
        return f, nets.segwit(hrp, 0, rb(32), "bech32")
    return f, nets.segwit(hrp, 1, rb(32), "bech32m")


def _rand_sub(rnd, form):
    if form[0] == "E":
        return rnd.choice(["%d" % rnd.randrange(13), "%d/%d" % (rnd.randrange(13), rnd.randrange(2)), "0-1/0-1", "%d-%d" % (3, 5), "12/1,0"])
    mark = lambda: rnd.choice("'pH")        # noqa: E731
    comps = []
    budget = 6
    for _ in range(rnd.randrange(1, 5)):
        v = rnd.choice((0, 1, 2, 44, rnd.randrange(1 << 31), (1 << 31) - 1, 1 << 24))
        r = rnd.random()
        if r < 0.2 and budget >= 2 and v < (1 << 31) - 3:
            w = rnd.randrange(2, 4)
            budget //= w
            c = "%d-%d" % (v, v + w - 1)
        elif r < 0.3 and budget >= 2:
            budget //= 2
            c = "%d%s,%d" % (v, mark() if rnd.random() < 0.5 else "", rnd.randrange(100))
        else:
            c = "%d" % v
        if rnd.random() < 0.35:
            c += mark()
        comps.append(c)
    s = "/".join(comps)
    if rnd.random() < 0.1 and "-" not in s and "," not in s:
        s += ".pub"
    return s


def _record_one(tap, case, forms, items):
    argv = X.argv_of(case, items[0]) + items[1:]
    ran = tap.run(lambda: X.run_ku(argv))
    obs = X.parse_stdout(ran.out)
    fx = X.Facts()
    fx.nums = X.numbers_in("".join(case["sub"]))
    roots = []
    structs = []
    for it in items:
        t = nets.structure_of(it)
        structs.append(t)
        roots += fx.of_structure(t)
    fx.hmac_calls(list(tap.calls), roots)
    if obs is not None:
        fx.of_printed(obs)
    ev = dict(case, items=[{"s": it, "t": t} for it, t in zip(items, structs)], obs=obs if obs is not None else [],
              unreadable=obs is None, raised=bool(ran.exc or ran.err), facts=fx.F)
    # derivations happened but no HMAC-SHA512 went through the stdlib entry points (names bound before the recording,
    # hand-written HMAC): the run cannot be judged here (the replay direction evaluates derivations without the tap)
    hd = ("xprv", "xpub", "yprv", "ypub", "zprv", "zpub")
    unobserved = not tap.calls and bool(obs) and any(f in ("P", "H") or (f in hd and case["sub"]) for f in forms)
    return {"ev": [ev], "argv": argv, "forms": forms, "exc": ran.exc, "err": ran.err[:200], "out": ran.out[:2000], "parts": [],
            "unobserved": unobserved}


def record_traces(seed, count, tbl):
    rnd = random.Random(seed * 7919 + 3003)
    rows = [r for r in tbl if not r["stub"]]
    btc = next(r for r in rows if r["sym"] == "BTC")
    out = []
    with X.HmacTap() as tap:
        for ti in range(count):
            row = rnd.choice(rows) if rnd.random() < 0.8 else btc
            named = rnd.random() < 0.75
            o = {"pub": rnd.random() < 0.25, "json": rnd.random() < 0.5, "unc": False, "sel": "", "brief": []}
            r = rnd.random()
            if r < 0.3:
                o["sel"] = rnd.choice("wWa")
                o["unc"] = rnd.random() < 0.4
            elif r < 0.45:
                o["brief"] = rnd.sample(_ROWKEYS, rnd.randrange(1, 4))
            items = []
            forms = []
            for _ in range(1 if rnd.random() < 0.8 else 2):
                f, text = _rand_item(rnd, row, allow_generic=named or row is btc)
                forms.append(f)
                items.append(text)
            sub = ""
            if forms[0][0] == "E" and len(items) == 1 and rnd.random() < 0.8:
                sub = _rand_sub(rnd, forms[0])
            elif forms[0] in ("xprv", "xpub", "yprv", "ypub", "zprv", "zpub", "P", "H") and rnd.random() < 0.6:
                sub = _rand_sub(rnd, forms[0])
            elif rnd.random() < 0.05:
                sub = "0/1"
            ov = ""
            if rnd.random() < 0.15 and not (forms[0][0] == "E" and sub):
                ov = rnd.choice(rows)["sym"]
            case = {"nopt": row["sym"] if named else "", "ov": ov, "sub": list(sub), "opts": o}
            out.append(_record_one(tap, case, forms, items))
            if len(items) > 1:          # the same items one by one: a rejected run is attributed to the item that explains it
                for f, it in zip(forms, items):
                    out[-1]["parts"].append(_record_one(tap, case, [f], [it]))
    return out


def validate_traces(ctx, traces, env):
    """-> (set of accepted indices, set of indices left open by the rules)"""
    path = nets.write_json([{"ev": t["ev"]} for t in traces], "vf-x03-trace-")
    try:
        r = ctx.tlc("X03_Trace_Ku", "X03_Trace_Ku", workers=8, env=dict(env, TRACE_FILE=path), count=False, timeout=2400)
    finally:
        os.unlink(path)
    hdr = [x for x in r.records if isinstance(x, dict) and x.get("k") == "hdr"]
    if not hdr or hdr[0]["n"] != len(traces):
        raise MachineryError("trace run did not load %d traces: %s" % (len(traces), r.raw_tail[-5:]))
    acc = {x["tid"] - 1 for x in r.records if isinstance(x, dict) and x.get("k") == "acc"}
    opn = {x["tid"] - 1 for x in r.records if isinstance(x, dict) and x.get("k") == "open"}
    return acc, opn


def _trace_key(t):
    """class-level: what kind of item, which modifiers change what is shown, how the run ended"""
    e = t["ev"][0]
    what = "several-items" if len(t["forms"]) > 1 else _FORM_CLASS[t["forms"][0]]
    return "X03|trace|item=%s%s%s%s|%s" % (what, "|-P" if e["opts"]["pub"] else "", "|override" if e["ov"] else "",
                                           "|no-subkey" if what == "electrum" and not e["sub"] else "",
                                           "raises:%s" % (t["exc"] or "stderr") if e["raised"] else "prints")


def stage_traces(ctx, env, tbl, q):
    n = 240 if q else 3000
    traces = record_traces(ctx.seed, n, tbl)
    ctx.extra["trace_runs_with_unobserved_hmac"] = sum(1 for t in traces if t["unobserved"])
    traces = [t for t in traces if not t["unobserved"]]
    ctx.case(None, len(traces))
    nrej = nopen = 0
    accepted = []
    rejected = []
    for chunk in split(traces, max(1, len(traces) // 1000)):
        acc, opn = validate_traces(ctx, chunk, env)
        nopen += len(opn)
        ctx.traces += len(acc - opn)
        for i, t in enumerate(chunk):
            if i in acc:
                if i not in opn:
                    accepted.append(t)
            else:
                rejected.append(t)
    # a rejected run of several items is attributed to the items that are rejected on their own
    parts = [p for t in rejected for p in t["parts"]]
    pacc = validate_traces(ctx, parts, env)[0] if parts else set()
    pi = 0
    for t in rejected:
        nrej += 1
        mine = list(range(pi, pi + len(t["parts"])))
        pi += len(t["parts"])
        culprits = [parts[j] for j in mine if j not in pacc and not parts[j]["unobserved"]]
        if not culprits:
            if any(parts[j]["unobserved"] for j in mine):
                continue        # an item whose derivations could not be observed: the run cannot be attributed
            culprits = [t]
        for c in culprits:
            ctx.fail(_trace_key(c), "recorded run is not a run of the pipeline of X03_KuTable: ku %s" % " ".join(c["argv"]),
                     {"argv": c["argv"], "stdout": c["out"], "stderr": c["err"], "exc": c["exc"]})
    ctx.extra["traces_left_open_by_the_rules"] = nopen
    ctx.log("traces: %d invocations, %d rejected (incl. known), %d left open by the rules" % (len(traces), nrej, nopen))
    if nopen > len(traces) // 3:
        raise MachineryError("too many recorded runs are outside the specified domain (%d of %d)" % (nopen, len(traces)))
    if traces:
        ctx.sample({"trace": {"argv": traces[0]["argv"], "printouts": len(traces[0]["ev"][0]["obs"])}})
    return accepted


# ---------------------------------------------------------------- ground truth: the repository's own ku test files
def truth_events(tbl, few=False):
    """the command / expected-output pairs of REPO/tests/cmds/test_cases/ku as canned observations (pycoin is run only to
    observe which HMAC-SHA512 values the facts table needs; the OUTPUT judged is the file's)"""
    import shlex
    from vf.ctx import REPO
    d = os.path.join(REPO, "tests", "cmds", "test_cases", "ku")
    out = []
    with X.HmacTap() as tap:
        for fn in sorted(os.listdir(d)):
            if not fn.endswith(".txt"):
                continue
            if few and fn.startswith("bip32_subpaths_") and fn[15:-4] not in ("btc", "ltc", "doge", "xtn", "tdash"):
                continue        # (quick tier: 22 files of the same shape, five of them)
            lines = open(os.path.join(d, fn)).read().split("\n")
            while lines and lines[0].startswith("#"):
                lines.pop(0)
            words = shlex.split(lines[0])
            if not words or words[0] != "ku":
                continue
            ev = X.parse_cmdline(words[1:])
            if ev is None or not ev["items"]:
                continue
            obs = X.parse_stdout("\n".join(lines[1:]))
            if obs is None:
                continue
            tap.run(lambda: X.run_ku(words[1:]))
            fx = X.Facts()
            fx.nums = X.numbers_in("".join(ev["sub"]))
            roots = []
            items = []
            for it in ev.pop("items"):
                t = nets.structure_of(it)
                items.append({"s": it, "t": t})
                roots += fx.of_structure(t)
            if not tap.calls and any(it["s"][:2] in ("P:", "H:") or (ev["sub"] and it["t"]["f"] == "b58c" and len(it["t"]["d"]) == 78) for it in items):
                continue        # HMAC not observable on this tree: the file cannot be judged (see _record_one)
            try:
                fx.hmac_calls(list(tap.calls), roots)
            except ValueError:
                pass
            fx.of_printed(obs)
            out.append({"file": fn, "ev": [dict(ev, items=items, obs=obs, unreadable=False, raised=False, facts=fx.F)]})
    return out


def stage_truth(ctx, env, tbl, q):
    evs = truth_events(tbl, few=q)
    if len(evs) < 15:
        raise MachineryError("only %d of the repository's ku test files could be read" % len(evs))
    acc, opn = validate_traces(ctx, evs, env)
    bad = [evs[i]["file"] for i in range(len(evs)) if i not in acc]
    ctx.extra["ground_truth_files"] = {"validated": len(acc - opn), "outside_the_specified_domain": sorted(evs[i]["file"] for i in opn)}
    ctx.log("ground truth: %d of the repository's ku test files are runs of the spec, %d outside its domain, rejected: %s" % (
        len(acc - opn), len(opn), bad))
    if bad and not ctx.violations:
        raise MachineryError("the specification rejects the repository's expected output of %s" % bad)
    return evs, acc - opn


# ---------------------------------------------------------------- binding self-tests
def selftests(ctx, env, truth, truth_ok):
    """canned observations only (the repository's expected outputs), never live results"""
    import copy
    byfile = {truth[i]["file"]: truth[i] for i in truth_ok}
    need = ("bip32_xprv.txt", "secret_exponent.txt", "bip49_ltc.txt")
    if any(f not in byfile for f in need):
        raise MachineryError("self-test needs the repository's ku test files %s (validated: %s)" % (need, sorted(byfile)))

    def rows_of(t):
        return [r for p in t["ev"][0]["obs"] for r in p["rows"]]
    bad = []
    b = copy.deepcopy(byfile["bip32_xprv.txt"])             # text form: one byte of the chain code
    next(r for r in rows_of(b) if r["lab"] == "chain code")["v"]["hex"][-1] ^= 1
    bad.append(b)
    b = copy.deepcopy(byfile["bip32_xprv.txt"])             # text form: two rows change places
    rows = b["ev"][0]["obs"][0]["rows"]
    i = next(i for i, r in enumerate(rows) if r["lab"] == "fingerprint")
    rows[i], rows[i + 1] = rows[i + 1], rows[i]
    bad.append(b)
    b = copy.deepcopy(byfile["secret_exponent.txt"])        # the compression marker of the WIF payload
    next(r for r in rows_of(b) if r["lab"] == "wif")["v"]["b58"][-1] = 2
    bad.append(b)
    b = copy.deepcopy(byfile["bip49_ltc.txt"])              # JSON form: the network row names another network
    next(r for r in rows_of(b) if r["k"] == "network")["v"]["s"] = "Bitcoin mainnet"
    bad.append(b)
    b = copy.deepcopy(byfile["bip49_ltc.txt"])              # JSON form: the address is the P2PKH address instead of the family's
    next(r for r in rows_of(b) if r["k"] == "address")["v"] = X.decode_value("LTinsMDAYKis3aedQhZuPh3mZHyMkAVsMR")
    bad.append(b)
    acc, opn = validate_traces(ctx, bad + [byfile["bip32_xprv.txt"]], env)
    ctx.selftest("trace_rejects_corrupted_field", acc == {len(bad)} and not opn)
    # replay direction: the template-evaluated table of `ku 1` against the repository's expected text, then corrupted
    from vf.ctx import REPO
    lines = open(os.path.join(REPO, "tests", "cmds", "test_cases", "ku", "secret_exponent.txt")).read().split("\n")
    while lines[0].startswith("#"):
        lines.pop(0)
    chunks = X.split_outputs("\n".join(lines[1:]), ["text"])
    tk = {"cls": "key", "fam": "", "kind": "", "prv": True, "net": "BTC", "depth": 0, "cn": {"h": False, "v": 0}}
    node = {"key": {"t": "sum", "ts": [{"t": "b", "v": [0] * 31 + [1]}]}}
    want = expected_rows(tk, node, "1")
    shown = [k for k, lab, lg, v in want if not lg]
    ok_true = chunks is not None and compare_chunk("text", chunks[0], want, shown) is None
    i = next(i for i, w in enumerate(want) if w[0] == "wif")
    want2 = list(want)
    want2[i] = (want[i][0], want[i][1], want[i][2], want[i][3][:-1] + ("2" if want[i][3][-1] != "2" else "3"))
    ok_bad = chunks is not None and compare_chunk("text", chunks[0], want2, shown) is not None
    ctx.selftest("replay_accepts_true_expectation", ok_true)
    ctx.selftest("replay_rejects_corrupted_expectation", ok_bad)


def run(ctx):
    q = ctx.quick
    only = getattr(ctx, "only", None)
    _wrap_fail(ctx)

    def stage(name):
        return only is None or name in only
    ctx.rule = ("invocations of ku = input form x pool key x network (named, detected, overridden) x option set x sub-key spelling; "
                "distinct_nontrivial = (input form, option set, modifiers, class of key shown, network) combinations whose printed "
                "table was compared field by field with the evaluated template")
    ctx.assumptions += ["no hash collisions (equality of terms stands for equality of values)",
                        "Base58Check / Bech32 are injective on valid texts (C11)",
                        "the display names of networks (\"Bitcoin mainnet\") are configuration read from pycoin itself",
                        "Groestlcoin-family networks are stubs in this sandbox (L3): not tabulated"]
    tbl = X.net_table()
    pool = X.make_pool(ctx.seed, 0 if q else 10)
    tpath = nets.write_json(tbl, "vf-x03-nets-")
    ppath = nets.write_json(pool, "vf-x03-pool-")
    env = {"NET_TABLE": tpath, "X03_POOL": ppath}
    try:
        cases = stage_model(ctx, env, q) if (stage("model") or stage("replay")) else []
        if stage("replay"):
            stage_replay(ctx, cases)
        if stage("helpers"):
            stage_helpers(ctx, tbl, pool)
        if stage("traces"):
            stage_traces(ctx, env, tbl, q)
        if stage("truth") or stage("selftest"):
            truth, truth_ok = stage_truth(ctx, env, tbl, q)
            if stage("selftest") and _TPLS:
                selftests(ctx, env, truth, truth_ok)
    finally:
        os.unlink(tpath)
        os.unlink(ppath)


def replay(ctx, obj):
    """./check X03 --replay FILE: run the recorded command line again on the current tree and show what it prints"""
    d = obj.get("detail") or {}
    print("key :", obj.get("key"))
    print("what:", obj.get("what"))
    argv = d.get("argv")
    if argv:
        ran = X.run_ku(argv)
        print("$ ku " + " ".join(argv))
        print(ran.out, end="")
        if ran.err:
            print("stderr:", ran.err.strip())
        if ran.exc:
            print("raises:", ran.exc)
        if d.get("stdout") is not None and (ran.out[:3000] == d["stdout"] and ran.exc == d.get("exc")):
            ctx.fail(obj["key"], obj.get("what", ""), d)      # behaves as recorded
