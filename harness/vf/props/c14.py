"""C14 - blocks round-trip, block ids and merkle roots follow the Bitcoin definition,
BIP37 merkleblock proofs.

0. ground truth (R2): the specs' terms, evaluated with hashlib, reproduce a real mainnet block
   (tests/btc/parse_block_test.py), the three roots of pycoin/merkle.py's self-test and the
   merkleblock example of the Bitcoin developer reference (self-authenticating: its header has
   proof of work and its partial tree hashes to the header's root).
1. model: TLC checks the lemmas of spec/Merkle.tla (MC_Merkle), spec/BlockWire.tla (MC_BlockWire)
   and the BIP37 verifier state machine of spec/PartialMerkle.tla (MC_PartialMerkle: every block
   size <= N, every subset, every corruption).
2. spec -> code: the same TLC runs print every case with the demanded outcome; each is executed on
   pycoin (merkle(), Block.parse/from_bin/stream/id, network.message.parse("merkleblock")).
3. code -> spec: seeded recorded calls on bigger random inputs, validated by TLC against
   spec/Trace_MerkleBlock.tla (which re-runs the verifier state machine on the logged proof).
"""
from __future__ import annotations

import copy
import hashlib
import json
import os
import random
import tempfile

from ..ctx import REPO, MachineryError
from ..drv import block as drv
from ..drv.block import Ev, num

NETS = ("BTC", "LTC")


def _only(ctx, name):
    o = getattr(ctx, "only", None)
    return (not o) or name in o


# ================================================================ 2a. merkle()

def _shape(n):
    if n == 1:
        return "single"
    return "pow2" if n & (n - 1) == 0 else "odd-level"


def replay_root(ctx, rec, seeds=(0, 1)):
    n = rec["n"]
    for s in seeds:
        ev = Ev("%d|%d" % (ctx.seed, s))
        leaves = [ev.leaf(i) for i in range(1, n + 1)]
        for mode, term in (("explicit", rec["t"]), ("default", rec["t"]), ("sha256", rec["t1"])):
            want = ev(term)
            got = drv.run_merkle(leaves, mode)
            ctx.case(("merkle", n, mode) if n > 1 else None)
            if got.get("root") != want:
                ctx.fail("C14|merkle|mode=%s|shape=%s|%s" % (mode, _shape(n), "exception" if "exc" in got else "wrong-root"),
                         "merkle() of %d hashes (%s): expected %s, got %s" % (n, mode, want.hex(), got),
                         {"n": n, "mode": mode, "leaves": [x.hex() for x in leaves], "expected": want.hex(), "got": got})
    ctx.replayed += 1


# ================================================================ 2b. headers and blocks

def _fields(ev, h):
    return {"version": num(h["version"]), "prev": ev(h["prev"]), "root": ev(h["root"]),
            "time": num(h["time"]), "bits": num(h["bits"]), "nonce": num(h["nonce"])}


def replay_header(ctx, rec, expect=None):
    """expect: override of the spec's expectations (binding self-test)"""
    ev = Ev(ctx.seed)
    image = ev.image(rec["image"])
    fields = _fields(ev, rec["h"])
    want = {
        "parse_as_header": fields, "consumed": 80, "as_bin": image, "stream_header": image,
        "id": ev(rec["id"]).hex(), "hash": ev(rec["id"])[::-1], "prev_id": ev(rec["prev"]).hex(),
        "parse_no_txs": fields, "parse_no_txs_id": ev(rec["id"]).hex(),
        "blockheader_id": ev(rec["id"]).hex(), "blockheader_bin": image,
        "ctor_bin": image, "ctor_id": ev(rec["id"]).hex(),
        "id_after_set_nonce": ev(rec["id2"]).hex(),
    }
    if expect:
        want.update(expect)
    bad = 0
    for net in NETS:
        got = drv.run_header(net, image, fields, num(rec["nonce2"]))
        ctx.case()
        if "exc" in got:
            bad += 1
            ctx.fail("C14|header|%s|exception|%s" % (net, got["exc"].split(":")[0]),
                     "header %s: %s" % (image.hex(), got["exc"]), {"image": image.hex(), "got": got})
            continue
        for k, w in want.items():
            if got.get(k) != w:
                bad += 1
                ctx.fail("C14|header|%s|%s" % (net, k), "header %s: %s expected %r got %r" % (image.hex(), k, w, got.get(k)),
                         {"image": image.hex(), "observation": k, "expected": w, "got": got.get(k), "record": rec})
    ctx.replayed += 1
    return bad


HOWS = ("parse", "from_bin", "deferred", "msg")      # msg: BlockWire.BlockMsgParts, the image inside a "block" message


def replay_block(ctx, rec, run=drv.run_block, nets=NETS, hows=HOWS, where=""):
    """run / nets / where: who executes the case (default: this process) and the configuration tag of the keys"""
    ev = Ev(ctx.seed)
    image = ev.image(rec["image"])
    accept = rec["accept"]
    txids = [ev(t) for t in rec["txids"]]
    ctx.case(("block", rec["n"], rec["sw"], rec["rk"], where))
    bad = 0
    for net in nets:
        for how in hows:
            got = run(net, image, how)
            ctx.case()
            cls = "%s|%s|rk=%s|sw=%s%s" % (net, how, rec["rk"], rec["sw"], where)
            detail = {"image": image.hex() if len(image) < 4000 else image[:200].hex() + "...", "n": rec["n"], "rk": rec["rk"],
                      "sw": rec["sw"], "got": got, "accept": accept, "how": how, "configuration": where}
            if not accept:
                if got["ok"]:
                    bad += 1
                    ctx.fail("C14|block|%s|expected=reject|got=accept" % cls,
                             "block of %d txs whose header root (%s) is not the merkle root of its txids was accepted by %s"
                             % (rec["n"], rec["rk"], how), detail)
                else:
                    ctx.extra.setdefault("block_reject_exceptions", {}).setdefault(got["exc"], 0)
                    ctx.extra["block_reject_exceptions"][got["exc"]] += 1
                continue
            if not got["ok"]:
                bad += 1
                ctx.fail("C14|block|%s|expected=accept|got=%s" % (cls, got["exc"]),
                         "valid block of %d txs refused by %s: %s %s" % (rec["n"], how, got["exc"], got["msg"]), detail)
                continue
            want = {"hdr": _fields(ev, rec["h"]), "consumed": len(image), "as_bin": image, "id": ev(rec["id"]).hex(),
                    "hash": ev(rec["id"])[::-1], "ntx": len(txids), "txids": txids,
                    "wtxids": [ev(t) for t in rec["wtxids"]], "isblock": True}
            for k, w in want.items():
                if got.get(k) != w:
                    bad += 1
                    ctx.fail("C14|block|%s|%s" % (cls, k), "block of %d txs: %s differs" % (rec["n"], k),
                             dict(detail, observation=k, expected=w))
    ctx.replayed += 1
    return bad


# ================================================================ 2c. merkleblock

def _mb_class(rec):
    return "cor=%s/%s|fail=%s" % (rec["cor"]["kind"], rec["cor"]["v"], "+".join(sorted(rec["fail"])) or "-")


def replay_mb(ctx, rec, stats=None, run=drv.run_merkleblock, nets=NETS, where=""):
    ev = Ev(ctx.seed)
    image = ev.image(rec["image"])
    demand = rec["demand"]
    matched = [ev(t) for t in rec["matched"]]
    pad = rec["bits"] % 8
    ctx.case(("mb", rec["n"], rec["cor"]["kind"], rec["cor"]["v"], tuple(sorted(rec["fail"])), pad == 0, len(rec["m"]) in (0, rec["n"]), where))
    bad = 0
    for net in nets:
        got = run(net, image)
        ctx.case()
        detail = {"image": image.hex(), "n": rec["n"], "matched_set": rec["m"], "corruption": rec["cor"], "configuration": where,
                  "spec": {"demand": demand, "bip37": rec["core"], "fail": rec["fail"], "matched": [x.hex() for x in matched]}, "got": got}
        cls = "%s|%s%s" % (net, _mb_class(rec), where)
        if demand == "accept":
            if not got["ok"]:
                bad += 1
                ctx.fail("C14|merkleblock|%s|expected=accept|got=%s" % (cls, got["exc"]),
                         "honest proof (n=%d, matched %s) refused: %s %s" % (rec["n"], rec["m"], got["exc"], got["msg"]), detail)
                continue
            if got["tx"] != matched:
                bad += 1
                ctx.fail("C14|merkleblock|%s|expected=accept|got=wrong-matches" % cls,
                         "honest proof (n=%d, matched %s) yields %s, expected %s" % (
                             rec["n"], rec["m"], [x.hex()[:8] for x in got["tx"]], [x.hex()[:8] for x in matched]), detail)
            if got["total"] != rec["n"] or got["nhashes"] != rec["nhashes"] or got["flags"] != rec["flags"]:
                bad += 1
                ctx.fail("C14|merkleblock|%s|fields%s" % (net, where), "merkleblock fields parsed differently", detail)
            if got["repacked"] != image:
                bad += 1
                ctx.fail("C14|merkleblock|%s|pack%s" % (net, where), "pack(parse(message)) differs from the message", detail)
        elif demand == "reject":
            if got["ok"]:
                bad += 1
                ctx.fail("C14|merkleblock|%s|expected=reject|got=accept" % cls,
                         "corrupted proof accepted (n=%d, matched %s, %s; the BIP37 verifier fails with %s)" % (
                             rec["n"], rec["m"], rec["cor"], rec["fail"]), detail)
        else:
            # the property is silent; note whether pycoin agrees with BIP37/Core
            if stats is not None:
                k = "%s:%s" % (rec["cor"]["kind"], "agrees" if got["ok"] == (rec["core"] == "accept") else "differs")
                stats[k] = stats.get(k, 0) + 1
    ctx.replayed += 1
    return bad


# ================================================================ 2d. the message cases in other process configurations

def _unjs(o):
    if isinstance(o, dict):
        if set(o) == {"hex"}:
            return bytes.fromhex(o["hex"])
        return {k: _unjs(v) for k, v in o.items()}
    if isinstance(o, list):
        return [_unjs(v) for v in o]
    return o


def _spawn(order, driven, mb_img, bl_img):
    import subprocess
    import sys
    fd, path = tempfile.mkstemp(prefix="vf-c14-cfg-", suffix=".json")
    with os.fdopen(fd, "w") as f:
        json.dump({"order": list(order), "driven": sorted(driven), "mb": [x.hex() for x in mb_img], "blocks": [x.hex() for x in bl_img]}, f)
    return path, subprocess.Popen([sys.executable, "-m", "vf.drv.block", path], stdout=subprocess.PIPE, stderr=subprocess.PIPE, text=True)


def _collect(order, job):
    import subprocess
    path, p = job
    try:
        out, err = p.communicate(timeout=1500)
    except subprocess.TimeoutExpired:
        p.kill()
        raise MachineryError("configuration worker (networks %s) did not finish" % (order,))
    finally:
        os.unlink(path)
    if p.returncode != 0:
        raise MachineryError("configuration worker failed (networks %s): %s" % (order, err[-1500:]))
    return _unjs(json.loads(out))


def replay_configs(ctx, config, mbs, blocks):
    """BlockWire.LoadOrders: for every order a fresh process loads all its networks first, then executes the kept
    merkleblock / block message cases on each driven network (drv.block worker mode); judged here, by the same
    comparisons as in-process, against the same records of TLC"""
    ev = Ev(ctx.seed)
    mb_img = [ev.image(r["image"]) for r in mbs]
    bl_img = [ev.image(r["image"]) for r in blocks]
    jobs = [(order, _spawn(order, config["driven"], mb_img, bl_img)) for order in config["orders"]]
    nbad = 0
    for order, job in jobs:
        res = _collect(order, job)
        where = "|loaded=" + "+".join(order)
        nets = [n for n in order if n in config["driven"]]
        if sorted(res["mb"]) != sorted(nets) or any(len(res["mb"][n]) != len(mbs) or len(res["blocks"][n]) != len(blocks) for n in nets):
            raise MachineryError("configuration worker (networks %s) answered for %s" % (order, sorted(res["mb"])))
        tab_mb = {(n, img): got for n in nets for img, got in zip(mb_img, res["mb"][n])}
        tab_bl = {(n, img): got for n in nets for img, got in zip(bl_img, res["blocks"][n])}
        bad = 0
        for r in mbs:
            bad += replay_mb(ctx, r, None, run=lambda n, img: tab_mb[(n, img)], nets=nets, where=where)
        for r in blocks:
            bad += replay_block(ctx, r, run=lambda n, img, how: tab_bl[(n, img)], nets=nets, hows=("msg",), where=where)
        ctx.action("replay.config." + "+".join(order), (len(mbs) + len(blocks)) * len(nets))
        ctx.log("networks loaded in the order %s: %d merkleblock + %d block message cases on %s: %d disagreements" % (
            ",".join(order), len(mbs), len(blocks), "/".join(nets), bad))
        nbad += bad
    return nbad


# ================================================================ 0. ground truth

def _norm_runs(b):
    runs = []
    for x in b:
        if runs and runs[-1][0] == x:
            runs[-1][1] += 1
        else:
            runs.append([x, 1])
    return runs


def _lit(b):
    return {"op": "b", "v": _norm_runs(b)}


def _limbs(v):
    return [v & 0xFFFF, v >> 16]


def _split_legacy_txs(b, count):
    """cut `count` legacy transactions out of b (own reader; no pycoin)"""
    def cs(p):
        v = b[p]
        if v < 253:
            return v, p + 1
        if v == 253:
            return int.from_bytes(b[p + 1:p + 3], "little"), p + 3
        return int.from_bytes(b[p + 1:p + 5], "little"), p + 5
    out = []
    p = 0
    for _ in range(count):
        s = p
        p += 4
        nin, p = cs(p)
        for _ in range(nin):
            p += 36
            l, p = cs(p)
            p += l + 4
        nout, p = cs(p)
        for _ in range(nout):
            p += 8
            l, p = cs(p)
            p += l
        p += 4
        out.append(b[s:p])
    if p != len(b):
        raise MachineryError("ground-truth block did not split into %d transactions" % count)
    return out


def _real_block():
    src = open(os.path.join(REPO, "tests", "btc", "parse_block_test.py")).read()
    import re
    hexes = "".join(re.findall(r'"([0-9A-Fa-f]{20,})"', src.split("block_data = h2b(")[1].split(")")[0]))
    cks = re.search(r'"([0-9A-Fa-f]{64})"\.lower\(\)', src).group(1).lower()
    return bytes.fromhex(hexes), cks


DEVREF_MERKLEBLOCK = bytes.fromhex(
    "01000000" "82bb869cf3a793432a66e826e05a6fc37469f8efb7421dc88067010000000000"
    "7f16c5962e8bd963659c793ce370d95f093bc7e367117b3c30c1f8fdd0d97287" "76381b4d" "4c86041b" "554b8529"
    "07000000" "04"
    "3612262624047ee87660be1a707519a443b1c1ce3d248cbfc6c15870f6c5daa2"
    "019f5b01d4195ecbc9398fbf3c3b1fa9bb3183301d7a1fb3bd174fcfa40a2b65"
    "41ed70551dd7e841883ab8f0b16bf04176b7d1480e4f0af9f3d4c3595768d068"
    "20d2a7bc994987302e5b1ac80fc425fe25f8b63169ea78e68fbaaefa59379bbf"
    "01" "1d")


def _hdr_json(raw80, prev=None, root=None):
    f = lambda o: _limbs(int.from_bytes(raw80[o:o + 4], "little"))
    return {"version": f(0), "prev": prev or _lit(raw80[4:36]), "root": root or _lit(raw80[36:68]),
            "time": f(68), "bits": f(72), "nonce": f(76)}


def ground_truth(ctx):
    """spec + evaluator against authentic data; any disagreement is a machinery failure"""
    blk, blk_id = _real_block()
    raws = _split_legacy_txs(blk[81:], blk[80])
    txids = [drv.sha256d(r) for r in raws]
    # pycoin/merkle.py's own vectors (blocks 71043, 71038), byte-reversed display form
    r = lambda h: bytes.fromhex(h)[::-1]
    vec = [([r("56dee62283a06e85e182e2d0b421aceb0eadec3d5f86cdadf9688fc095b72510")],
            r("56dee62283a06e85e182e2d0b421aceb0eadec3d5f86cdadf9688fc095b72510")),
           ([r("67ffe41e53534805fb6883b4708fd3744358f99e99bc52111e7a17248effebee"),
             r("c8b336acfc22d66edf6634ce095b888fe6d16810d9c85aff4d6641982c2499d1")],
            r("30325a06daadcefb0a3d1fe0b6112bb6dfef794316751afc63f567aef94bd5c8")),
           ([r("f484b014c55a43b409a59de3177d49a88149b4473f9a7b81ea9e3535d4b7a301"),
             r("7b5636e9bc6ec910157e88702699bc7892675e8b489632c9166764341a4d4cfe"),
             r("f8b02b8bf25cb6008e38eb5453a22c502f37e76375a86a0f0cfaa3c301aa1209")],
            r("4f4c8c201e85a64a410cc7272c77f443d8b8df3289c67af9dab1e87d9e61985e")),
           (txids, blk[36:68])]
    mb = DEVREF_MERKLEBLOCK
    mb_hashes = [mb[85 + 32 * i:117 + 32 * i] for i in range(4)]
    traces = [{"kind": "merkle", "n": len(l)} for l, _ in vec]
    traces.append({"kind": "block", "n": len(raws), "h": _hdr_json(blk[:80]), "res": {"ok": True, "rt": True}})
    traces.append({"kind": "mb", "n": 7, "flags": [0x1d], "hashes": [{"op": "x", "i": i} for i in range(1, 5)],
                   "want": {"op": "x", "i": 0}, "honest": False, "res": {"ok": False}})
    traces.append({"kind": "block", "n": 7, "h": _hdr_json(mb[:80]), "res": {"ok": True, "rt": True}})
    rej, badrec, r_ = validate(ctx, traces, count=False)
    recs = {(x["k"], x["tid"]): x for x in r_.records if isinstance(x, dict) and "tid" in x}
    probs = []
    for i, (leaves, want) in enumerate(vec):
        ev = Ev(0, leaves={k + 1: v for k, v in enumerate(leaves)})
        if ev(recs[("mroot", i + 1)]["t"]) != want:
            probs.append("Merkle.Root of vector %d" % i)
    t = recs[("bid", len(vec) + 1)]
    ev = Ev(0)
    if ev.image(t["image"]) != blk[:80] or ev(t["id"]).hex() != blk_id:
        probs.append("BlockWire header image / id of the block in parse_block_test.py")
    if int(blk_id, 16) >> (256 - 40) != 0:
        probs.append("the test block's id has no proof of work?")
    t = recs[("tv", len(vec) + 2)]
    ev = Ev(0)
    ev.alien = lambda i: mb_hashes[i - 1] if i else b"\0" * 32
    if ev(t["root"]) != mb[36:68] or [ev(x) for x in t["matched"]] != [mb_hashes[1]] or sorted(t["fail"]) != ["root_mismatch"]:
        probs.append("PartialMerkle verifier on the developer-reference merkleblock")
    t = recs[("bid", len(vec) + 3)]
    if ev.image(t["image"]) != mb[:80] or int(ev(t["id"]).hex(), 16) >> (256 - 44) != 0:
        probs.append("developer-reference merkleblock header id lacks proof of work")
    if probs:
        raise MachineryError("spec disagrees with ground truth: " + "; ".join(probs))
    ctx.extra["ground_truth"] = ["pycoin/merkle.py vectors (blocks 71043, 71038)", "tests/btc/parse_block_test.py block: root, header image, id",
                                 "developer-reference merkleblock (n=7, flags 1d): computed root, matched txid, header PoW"]
    ctx.log("ground truth: %d merkle roots, real block header/id, developer-reference merkleblock reproduced by spec + hashlib" % len(vec))


# ================================================================ 3. traces

def _width(n, h):
    return (n + (1 << h) - 1) >> h


def _height(n):
    h = 0
    while _width(n, h) > 1:
        h += 1
    return h


def _leaf(i):
    return {"op": "leaf", "i": i}


def _node(n, h, pos, mut=None, perm=None):
    """term of node (h, pos) of the tree over leaves 1..n; mut/perm: deliberate deviations for bad block roots"""
    if h == 0:
        return _leaf((perm or {}).get(pos + 1, pos + 1))
    l = _node(n, h - 1, 2 * pos, mut, perm)
    if 2 * pos + 1 < _width(n, h - 1):
        r = _node(n, h - 1, 2 * pos + 1, mut, perm)
    elif mut == "nodup":
        return l
    else:
        r = l
    if mut == "revpair":
        l, r = r, l
    return {"op": "h256d", "l": l, "r": r}


def _build(n, M):
    """reference prover used to make inputs for recorded runs (checked by TLC: Trace_MerkleBlock.RecorderOk)"""
    bits, hashes = [], []

    def rec(h, pos):
        lo, hi = pos << h, min((pos + 1) << h, n)
        parent = any((i + 1) in M for i in range(lo, hi))
        bits.append(1 if parent else 0)
        if h == 0 or not parent:
            hashes.append(_node(n, h, pos))
        else:
            rec(h - 1, 2 * pos)
            if 2 * pos + 1 < _width(n, h - 1):
                rec(h - 1, 2 * pos + 1)
    rec(_height(n), 0)
    return bits, hashes


def _pack(bits):
    out = [0] * ((len(bits) + 7) // 8)
    for k, b in enumerate(bits):
        if b:
            out[k // 8] |= 1 << (k % 8)
    return out


_SIZES = [1, 2, 3, 4, 5, 6, 7, 8, 9, 10, 11, 12, 13, 15, 16, 17, 23, 24, 25, 31, 32, 33, 37, 41, 47, 48, 49, 50,
          63, 64, 65, 67, 96, 97, 100, 127, 128, 129, 130]


def record_traces(seed, count, nmax):
    rnd = random.Random(seed)
    out = []
    for t in range(count):
        tseed = "%s|t%d" % (seed, t)
        kindsel = rnd.random()
        if kindsel < 0.08:
            n = rnd.choice([18, 19, 31, 33, 63, 64, 65, 100, 127, 129, 200, 255, 257, 300])
            ev = Ev(tseed)
            got = drv.run_merkle([ev.leaf(i) for i in range(1, n + 1)], rnd.choice(("explicit", "default")))
            out.append({"kind": "merkle", "n": n, "res": got["root"].hex() if "root" in got else "exc:" + got["exc"], "_seed": tseed})
            continue
        if kindsel < 0.22:
            out.append(_record_block(rnd, tseed, nmax))
            continue
        n = rnd.choice([s for s in _SIZES if s <= nmax])
        dens = rnd.choice((0.0, 0.05, 0.2, 0.5, 0.9, 1.0))
        M = {i for i in range(1, n + 1) if rnd.random() < dens}
        if rnd.random() < 0.1:
            M = {rnd.randint(1, n)}
        if rnd.random() < 0.1:
            M |= {n}
        bits, hashes = _build(n, M)
        flags = _pack(bits)
        want = _node(n, _height(n), 0)
        total = n
        cors = []
        ncor = rnd.choice((0, 0, 1, 1, 1, 1, 2))
        for _ in range(ncor):
            k = rnd.choice(("alter", "alter", "remove", "add", "padbit", "root", "flagflip", "flagbyte", "dropflag", "total"))
            if k == "alter" and hashes:
                i = rnd.randrange(len(hashes))
                hashes[i] = rnd.choice(({"op": "x", "i": 1}, {"op": "flip", "arg": hashes[i], "bit": rnd.randrange(256)},
                                        hashes[rnd.randrange(len(hashes))]))
            elif k == "remove" and hashes:
                del hashes[rnd.randrange(len(hashes))]
            elif k == "add":
                hashes.insert(rnd.randint(0, len(hashes)), rnd.choice([{"op": "x", "i": 2}] + hashes[:1] + hashes[-1:]))
            elif k == "padbit":
                if len(bits) % 8 and flags:
                    flags[-1] |= 1 << rnd.randrange(len(bits) % 8, 8)
            elif k == "root":
                want = rnd.choice(({"op": "x", "i": 3}, {"op": "flip", "arg": want, "bit": rnd.randrange(256)},
                                   _node(max(1, n - 1), _height(max(1, n - 1)), 0)))
            elif k == "flagflip":
                b = rnd.randrange(len(bits))
                if b // 8 < len(flags):
                    flags[b // 8] ^= 1 << (b % 8)
            elif k == "flagbyte":
                flags.append(rnd.choice((0, 0, 1, 255)))
            elif k == "dropflag" and flags:
                flags.pop()
            elif k == "total":
                total = max(0, n + rnd.choice((-1, 1, 1, 7)))
            cors.append(k)
        ev = Ev(tseed)
        hdr = rnd.randbytes(4) + ev.alien(9) + ev(want) + rnd.randbytes(12)
        image = (hdr + total.to_bytes(4, "little") + drv.compact_size(len(hashes)) + b"".join(ev(h) for h in hashes)
                 + drv.compact_size(len(flags)) + bytes(flags))
        got = drv.run_merkleblock(rnd.choice(NETS), image)
        back = {}
        for h in hashes:
            back.setdefault(ev(h), h)
        res = {"ok": got["ok"]}
        if got["ok"]:
            res["tx"] = [back.get(x, {"op": "unknown"}) for x in got["tx"]]
        else:
            res["exc"] = got["exc"]
        # n: the block the leaves come from; total: what the message claims
        out.append({"kind": "mb", "n": total, "n0": n, "flags": flags, "hashes": hashes, "want": want, "honest": not cors,
                    "cors": cors, "res": res, "_seed": tseed, "_image": image.hex(), "_m": sorted(M)})
    return out


def _record_block(rnd, tseed, nmax):
    n = rnd.choice([s for s in _SIZES if s <= nmax] + [60, 64, 65])
    raws = [drv.raw_legacy_tx(rnd) for _ in range(n)]
    leaves = {i + 1: drv.sha256d(r) for i, r in enumerate(raws)}
    mut = rnd.choice((None, None, None, "nodup", "revpair", "alien", "flip", "short", "swap"))
    H = _height(n)
    if mut in (None, "nodup", "revpair"):
        root = _node(n, H, 0, mut)
    elif mut == "alien":
        root = {"op": "x", "i": 5}
    elif mut == "flip":
        root = {"op": "flip", "arg": _node(n, H, 0), "bit": rnd.randrange(256)}
    elif mut == "short":
        root = _node(max(1, n - 1), _height(max(1, n - 1)), 0)
    else:
        i, j = rnd.randint(1, n), rnd.randint(1, n)
        root = _node(n, H, 0, perm={i: j, j: i})
    ev = Ev(tseed, leaves=leaves)
    f = [rnd.choice((0, 1, 2, 0x20000000, 0x7FFFFFFF, 0x80000000, 0xFFFFFFFF, rnd.randrange(2 ** 32))) for _ in range(4)]
    hdr = f[0].to_bytes(4, "little") + ev.alien(9) + ev(root) + b"".join(x.to_bytes(4, "little") for x in f[1:])
    image = hdr + drv.compact_size(n) + b"".join(raws)
    got = drv.run_block(rnd.choice(NETS), image, rnd.choice(("parse", "from_bin", "deferred")))
    res = {"ok": got["ok"], "rt": bool(got["ok"] and got["as_bin"] == image and got["txids"] == [leaves[i + 1] for i in range(n)]),
           "id": got.get("id", ""), "exc": got.get("exc", "")}
    h = {"version": _limbs(f[0]), "prev": {"op": "x", "i": 9}, "root": root, "time": _limbs(f[1]), "bits": _limbs(f[2]), "nonce": _limbs(f[3])}
    return {"kind": "block", "n": n, "h": h, "mut": mut or "honest", "res": res, "_seed": tseed, "_leaves": leaves, "_hdr": hdr.hex()}


def validate(ctx, traces, count=True):
    data = [{k: v for k, v in t.items() if not k.startswith("_")} for t in traces]
    fd, path = tempfile.mkstemp(prefix="vf-c14-traces-", suffix=".json")
    with os.fdopen(fd, "w") as f:
        json.dump(data, f)
    try:
        r = ctx.tlc("Trace_MerkleBlock", "Trace_MerkleBlock", workers=1, env={"TRACE_FILE": path}, count=False, timeout=1500,
                    jvm=("-Dtlc2.tool.queue.IStateQueue=StateDeque",))
    finally:
        os.unlink(path)
    verdict = [x for x in r.records if isinstance(x, dict) and x.get("k") == "rejected"]
    if not verdict or verdict[-1]["n"] != len(traces):
        raise MachineryError("trace run printed no verdict for %d traces: %s" % (len(traces), r.raw_tail[-5:]))
    rej = sorted(int(x) - 1 for x in verdict[-1]["ids"])
    badrec = sorted(int(x) - 1 for x in verdict[-1]["badrec"])
    return rej, badrec, r


def check_traces(ctx, traces, report=True):
    """TLC verdicts + evaluation of the terms TLC printed; returns indices of non-conforming traces"""
    rej, badrec, r = validate(ctx, traces)
    if badrec:
        raise MachineryError("the recorder's prover disagrees with PartialMerkle.Build on traces %s" % badrec[:5])
    bad = set(rej)
    tv = {}
    for x in r.records:
        if not isinstance(x, dict) or "tid" not in x:
            continue
        t = traces[x["tid"] - 1]
        if x["k"] == "mroot":
            if Ev(t["_seed"])(x["t"]).hex() != t["res"]:
                bad.add(x["tid"] - 1)
        elif x["k"] == "bid":
            ev = Ev(t["_seed"], leaves=t["_leaves"])
            if ev.image(x["image"]).hex() != t["_hdr"]:
                raise MachineryError("recorder and BlockWire disagree on the header image of trace %d" % x["tid"])
            if t["res"]["ok"] and t["res"]["id"] != ev(x["id"]).hex():
                bad.add(x["tid"] - 1)
        elif x["k"] == "tv":
            tv[x["tid"] - 1] = x
    missing = [i for i, t in enumerate(traces) if t["kind"] == "mb" and i not in tv]
    if missing:
        raise MachineryError("TLC did not finish the verifier on traces %s" % missing[:5])
    return sorted(bad), tv


def _trace_key(t, tv):
    if t["kind"] == "mb":
        return "C14|trace|merkleblock|demand=%s|fail=%s|got=%s" % (
            tv.get("demand"), "+".join(sorted(tv.get("fail", []))) or "-", "accept" if t["res"]["ok"] else t["res"].get("exc"))
    if t["kind"] == "block":
        return "C14|trace|block|root=%s|got=%s" % (t["mut"], "accept" if t["res"]["ok"] else t["res"]["exc"])
    return "C14|trace|merkle|%s" % _shape(t["n"])


# ================================================================ run

def run(ctx):
    q = ctx.quick
    ctx.rule = ("model: every block size <= N x every subset of matched transactions x every listed corruption (TLC, exhaustive), "
                "header/block grids of MC_BlockWire; replay: each printed case executed on pycoin for BTC and LTC, the message cases "
                "also in fresh processes per BlockWire.LoadOrders; "
                "distinct_nontrivial = distinct (n, corruption kind/variant, failure set, byte-aligned?, trivial match set?) "
                "merkleblock classes + (n, witness pattern, root kind) block classes + (n, mode) merkle classes")
    ctx.assumptions += ["SHA-256d is collision free on the values involved (term equality = hash equality)",
                        "symbolic leaves are concretised as distinct 32-byte values",
                        "the transaction wire format itself is C07's subject (spec/TxWire.tla is imported)",
                        "TLC/SANY, CPython, hashlib"]
    W = 16
    multi = {"config": None, "blocks": [], "mb": [], "per": {}}      # cases kept for the other process configurations

    # 0. ground truth
    if _only(ctx, "truth"):
        ground_truth(ctx)

    # 1 + 2a. Merkle.tla lemmas, root terms replayed on merkle()
    if _only(ctx, "merkle"):
        r = ctx.tlc("MC_Merkle", "MC_Merkle_q" if q else "MC_Merkle_t", workers=4, timeout=900)
        roots = r.by_kind("root")
        for rec in roots:
            replay_root(ctx, rec)
        ctx.action("replay.merkle", len(roots))
        ctx.sample({"merkle_root_term": roots[2]})
        r = ctx.tlc("MC_Merkle", "MC_Merkle_mut", workers=2, expect_ok=False, count=False)
        ctx.selftest("model_rejects_root_without_odd_duplication", (not r.ok) and r.violated == "Mut_NoDupAgrees")
        # binding: a corrupted expected term must be noticed
        bad = copy.deepcopy(roots[4])
        bad["t"]["l"], bad["t"]["r"] = bad["t"]["r"], bad["t"]["l"]
        _binding(ctx, "replay_rejects_corrupted_root_term", replay_root, roots[4], [bad])

    # 1 + 2b. BlockWire.tla lemmas, header and block cases replayed
    if _only(ctx, "block"):
        nb = [0, 0, 0]

        def on(rec):
            if rec.get("k") == "config":
                multi["config"] = rec
            elif rec.get("k") == "header":
                nb[0] += 1
                nb[2] += replay_header(ctx, rec)
                ctx.case(("hdr", nb[0]))
                if nb[0] == 3:
                    ctx.sample({"header_case": {k: rec[k] for k in ("h", "id")}})
            elif rec.get("k") == "block":
                nb[1] += 1
                nb[2] += replay_block(ctx, rec)
                if rec["n"] <= 3 or rec["rk"] == "dupquirk" or (rec["n"] <= 9 and rec["rk"] in ("good", "flip255")):
                    multi["blocks"].append(rec)
                if rec["n"] == 3 and rec["rk"] == "nodup":
                    ctx.sample({"block_case": {k: rec[k] for k in ("n", "sw", "rk", "accept", "honest_root")}})
                if rec["n"] == 2 and rec["rk"] == "good" and rec["sw"] == "second" and "keep" not in on.__dict__:
                    on.keep = rec
        ctx.tlc("MC_BlockWire", "MC_BlockWire_q" if q else "MC_BlockWire_t", workers=W, on_record=on, keep_records=False, timeout=1500)
        ctx.action("replay.header", nb[0])
        ctx.action("replay.block", nb[1])
        ctx.log("replayed %d header and %d block cases on %s: %d disagreements" % (nb[0], nb[1], "/".join(NETS), nb[2]))
        if nb[0] == 0 or nb[1] == 0:
            raise MachineryError("MC_BlockWire exported no cases")
        b1 = copy.deepcopy(on.keep)
        b1["accept"] = False
        b2 = copy.deepcopy(on.keep)
        b2["id"] = {"op": "rev", "arg": b2["id"]}
        _binding(ctx, "replay_rejects_corrupted_block_expectation", replay_block, on.keep, [b1, b2])

    # 1 + 2c. PartialMerkle.tla: verifier state machine, all subsets, all corruptions; replay on message.parse
    if _only(ctx, "mb"):
        stats = {}
        cnt = {"accept": 0, "reject": 0, "free": 0, "bad": 0}
        keep = {}

        def on(rec):
            if rec.get("k") != "mb":
                return
            cnt[rec["demand"]] += 1
            cnt["bad"] += replay_mb(ctx, rec, stats)
            # kept for the other configurations: every honest proof, and of every corruption class the first few
            ck = (rec["cor"]["kind"], rec["cor"]["v"], rec["demand"])
            multi["per"][ck] = multi["per"].get(ck, 0) + 1
            if rec["cor"]["kind"] == "none" or (rec["demand"] != "free" and multi["per"][ck] <= 4):
                multi["mb"].append(rec)
            ctx.action("replay.merkleblock." + rec["cor"]["kind"], 1)
            if rec["n"] == 5 and rec["m"] == [3, 5]:
                if rec["cor"]["kind"] in ("none", "padbit", "add") and rec["cor"]["kind"] not in keep:
                    keep[rec["cor"]["kind"]] = rec
                    ctx.sample({"merkleblock_case": {k: rec[k] for k in ("n", "m", "cor", "demand", "core", "fail", "matched", "flags", "nhashes")}})
        cfgs = ["MC_PartialMerkle_q"] if q else ["MC_PartialMerkle_t"]
        for cfg in cfgs:
            ctx.tlc("MC_PartialMerkle", cfg, workers=W, on_record=on, keep_records=False, timeout=3000)
        if not q:
            # vacuity guard with action coverage on a smaller instance (coverage doubles the run time)
            ctx.tlc("MC_PartialMerkle", "MC_PartialMerkle_cov", workers=W, coverage=True, count=False, timeout=900,
                    require_actions=("Pick", "Descend", "Ascend", "Finish", "Refused"))
        ctx.log("replayed merkleblock cases: %s; property-silent cases vs BIP37/Core: %s" % (cnt, dict(sorted(stats.items()))))
        ctx.extra["merkleblock_cases"] = dict(cnt)
        ctx.extra["unlisted_cases_vs_bip37"] = dict(sorted(stats.items()))
        if cnt["accept"] == 0 or cnt["reject"] == 0:
            raise MachineryError("MC_PartialMerkle exported no cases")
        # teeth of the model: wrong verifiers must violate the lemmas
        for cfg, inv in (("MC_PartialMerkle_mut1", "ListedRejected"), ("MC_PartialMerkle_mut2", "ListedRejected"),
                         ("MC_PartialMerkle_mut3", "HonestAccepted")):
            r = ctx.tlc("MC_PartialMerkle", cfg, workers=4, expect_ok=False, count=False, timeout=900)
            ctx.selftest("model_rejects_" + cfg, (not r.ok) and r.violated == inv)
        # binding: corrupted expectations must be noticed
        b1 = copy.deepcopy(keep["none"])
        b1["matched"] = b1["matched"][::-1]
        b3 = copy.deepcopy(keep["none"])
        b3["demand"] = "reject"
        _binding(ctx, "replay_rejects_corrupted_merkleblock_expectation", replay_mb, keep["none"], [b1, b3])
        b2 = copy.deepcopy(keep["padbit"])
        b2["demand"] = "accept"
        _binding(ctx, "replay_rejects_corrupted_merkleblock_expectation_2", replay_mb, keep["padbit"], [b2])

    # 2d. the message cases again, in processes that loaded several networks (BlockWire.LoadOrders)
    if _only(ctx, "block") and _only(ctx, "mb"):
        if not multi["config"] or not multi["mb"] or not multi["blocks"]:
            raise MachineryError("no configuration record / no message cases kept for the configurations")
        # deterministic whatever the order TLC's workers printed in
        key = lambda r: json.dumps({k: r[k] for k in ("n", "m", "cor")} if "cor" in r else {k: r[k] for k in ("n", "sw", "rk")}, sort_keys=True)
        replay_configs(ctx, multi["config"], sorted(multi["mb"], key=key), sorted(multi["blocks"], key=key))
        ctx.extra["process_configurations"] = multi["config"]["orders"]

    # 3. code -> spec
    if _only(ctx, "trace"):
        ntr = 1500 if q else 12000
        traces = record_traces("%d|c14" % ctx.seed, ntr, 50 if q else 130)
        dem = {}
        from ..par import split
        for chunk in split(traces, max(1, len(traces) // 750)):
            bad, tv = check_traces(ctx, chunk)
            ctx.traces += len(chunk) - len(bad)
            ctx.case(None, len(chunk))
            for i, t in enumerate(chunk):
                k = t["kind"] if t["kind"] != "mb" else "mb:" + tv[i]["demand"]
                if k == "mb:free":
                    # the property is silent: note whether pycoin sides with BIP37/Core
                    k += ":pycoin-%s-bip37" % ("agrees-with" if t["res"]["ok"] == (tv[i]["core"] == "accept") else "differs-from")
                dem[k] = dem.get(k, 0) + 1
                if t["kind"] == "mb":
                    ctx.case(("trace", t["n"], tv[i]["demand"], tuple(sorted(tv[i]["fail"]))), 0)
            for i in bad:
                t = chunk[i]
                ctx.fail(_trace_key(t, tv.get(i, {})), "recorded call is not allowed by the spec: %s" % json.dumps(
                    {k: v for k, v in t.items() if k in ("kind", "n", "n0", "cors", "mut", "res", "_m", "flags")})[:600],
                    {"trace": {k: v for k, v in t.items() if k != "_leaves"}, "tlc": tv.get(i)})
        ctx.extra["traces_by_demand"] = dict(sorted(dem.items()))
        ctx.log("traces: %s" % dict(sorted(dem.items())))
        allbad = set()
        mbs = [t for t in traces if t["kind"] == "mb" and t["honest"] and t["res"]["ok"] and len(t["res"]["tx"]) >= 2]
        blks = [t for t in traces if t["kind"] == "block" and t["res"]["ok"] and t["res"]["rt"]]
        mks = [t for t in traces if t["kind"] == "merkle" and not t["res"].startswith("exc")]
        if mbs:
            ctx.sample({"trace": {k: v for k, v in mbs[0].items() if k in ("kind", "n", "flags", "res", "_m")}})
        # binding: corrupt one logged field of conforming traces (skipped for a kind whose uncorrupted trace
        # is itself refused, i.e. when the implementation already violates the property there)
        batch, expect = [], []
        if mbs:
            b1 = copy.deepcopy(mbs[0])
            b1["res"]["tx"] = b1["res"]["tx"][:-1]
            b2 = copy.deepcopy(mbs[0])
            b2["res"] = {"ok": False, "exc": "ValueError"}
            batch.append((mbs[0], [b1, b2]))
        if blks:
            b3 = copy.deepcopy(blks[0])
            b3["res"]["id"] = b3["res"]["id"][2:] + b3["res"]["id"][:2]
            b4 = copy.deepcopy(blks[0])
            b4["res"]["ok"] = False
            batch.append((blks[0], [b3, b4]))
        if mks:
            b5 = copy.deepcopy(mks[0])
            b5["res"] = b5["res"][2:] + b5["res"][:2]
            batch.append((mks[0], [b5]))
        flat = []
        for g, bs in batch:
            flat.append(g)
            flat += bs
        bad, _ = check_traces(ctx, flat) if flat else ([], None)
        ok, pos, tested = True, 0, 0
        for g, bs in batch:
            if pos in bad:          # the uncorrupted trace is refused: nothing to learn from corrupting it
                pos += 1 + len(bs)
                continue
            tested += 1
            ok = ok and all((pos + 1 + j) in bad for j in range(len(bs)))
            pos += 1 + len(bs)
        if tested:
            ctx.selftest("trace_rejects_corrupted_field", ok)
        else:
            ctx.selftests["trace_rejects_corrupted_field"] = "skipped: no conforming recorded run to corrupt"
    ctx.exhaustive = True


class _Corrupting:
    """a stand-in ctx for the binding self-tests: counts failures instead of reporting them"""

    def __init__(self, ctx):
        self.seed = ctx.seed
        self.nfail = 0
        self.replayed = 0
        self.extra = {}

    def fail(self, *a, **k):
        self.nfail += 1
        return True

    def case(self, *a, **k):
        pass


def _binding(ctx, name, fn, good, bads):
    """binding self-test: every corrupted copy of a case the implementation passes must be reported.
    When the uncorrupted case already fails (the implementation violates the property right there) the
    self-test says nothing and is skipped - the violation itself is reported by the normal path."""
    cp = _Corrupting(ctx)
    fn(cp, good)
    if cp.nfail:
        ctx.selftests[name] = "skipped: the uncorrupted case already fails"
        return
    ok = True
    for b in bads:
        cp = _Corrupting(ctx)
        fn(cp, b)
        ok = ok and cp.nfail > 0
    ctx.selftest(name, ok)


def replay(ctx, obj):
    """./check C14 --replay replays/C14/<hash>.json : re-execute the stored failing input on pycoin"""
    d = obj.get("detail") or {}
    print(json.dumps({k: v for k, v in obj.items() if k != "detail"}, indent=1))
    img = d.get("image")
    if isinstance(img, dict):
        img = img.get("hex")
    where = d.get("configuration") or ""
    if img and where.startswith("|loaded=") and not img.endswith("..."):
        # a case of another process configuration: the same networks loaded in the same order, in a fresh process
        order = where[len("|loaded="):].split("+")
        ismb = "corruption" in d
        asked = [n for n in order if ("|%s|" % n) in obj["key"]] or order
        res = _collect(order, _spawn(order, asked, [bytes.fromhex(img)] if ismb else [], [] if ismb else [bytes.fromhex(img)]))
        for net in order:
            for got in res["mb" if ismb else "blocks"].get(net, []):
                print(net, "after loading", order, ":", {k: v for k, v in got.items() if k in ("ok", "exc", "msg", "id", "ntx", "tx")})
                if ismb:
                    spec = d["spec"]
                    wrong = (spec["demand"] == "reject" and got["ok"]) or (spec["demand"] == "accept" and (
                        not got["ok"] or [x.hex() for x in got["tx"]] != spec["matched"] or got["repacked"] != bytes.fromhex(img)))
                else:
                    wrong = got["ok"] != d["accept"] or (got["ok"] and (got["as_bin"] != bytes.fromhex(img) or got["consumed"] != len(img) // 2))
                if wrong and ("|%s|" % net) in obj["key"]:
                    ctx.fail(obj["key"], obj["what"], d)
    elif img and "corruption" in d:
        spec = d["spec"]
        print("spec:", spec, "corruption:", d["corruption"], "n:", d["n"], "matched set:", d["matched_set"])
        for net in NETS:
            got = drv.run_merkleblock(net, bytes.fromhex(img))
            print(net, "message.parse('merkleblock'):", {k: v for k, v in got.items() if k in ("ok", "exc", "msg", "tx")})
            if (spec["demand"] == "reject" and got["ok"]) or (spec["demand"] == "accept" and (
                    not got["ok"] or [x.hex() for x in got["tx"]] != spec["matched"] or got["repacked"] != bytes.fromhex(img))):
                ctx.fail(obj["key"], obj["what"], d)
    elif img and "accept" in d and not img.endswith("..."):
        for net in NETS:
            got = drv.run_block(net, bytes.fromhex(img), "parse")
            print(net, "Block.parse:", {k: v for k, v in got.items() if k in ("ok", "exc", "msg", "id", "ntx")})
            if got["ok"] != d["accept"] or (got["ok"] and got["as_bin"] != bytes.fromhex(img)):
                ctx.fail(obj["key"], obj["what"], d)
    else:
        print(json.dumps(d, indent=1)[:4000])
        print("(no single-case replayer for this kind of record; the stored detail above is the failing case)")
