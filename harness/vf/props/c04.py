"""C04 - signature hashes equal the consensus definition for every hash type.

1. TLC checks the lemmas of spec/Sighash.tla (MC_Sighash: what each hash type commits
   to, two formulations of the legacy preimage, the 0x1f mask, fork-id / Groestlcoin
   variants, the SIGHASH_SINGLE value, frame) and of the two script rewritings
   (MC_SighashScript: Core's pointer walks = instruction filters on every byte string).
2. Ground truth (R2): every signature check pycoin performs while validating
   tests/btc/data/tx_valid.json, the BIP143 example transactions of
   tests/btc/segwit_test.py and the Bitcoin Cash transaction of
   tests/cmds/test_cases/tx/bcash-validate.txt is turned into a request; TLC
   (MC_SighashCases) prints the digest blob the spec demands; the signature must verify
   on the spec's digest.  A signature that verifies on the spec's digest proves the spec
   right for that request; pycoin must then have used the same digest.
3. spec -> code: TLC (MC_SighashReplay) enumerates coin x sigversion x inputs x outputs x
   index x scenario x amount x all 256 hash types and prints the demanded digest; every
   case is executed on pycoin's SolutionChecker; the transaction must be unchanged.
4. code -> spec: seeded random larger transactions are run through pycoin, the requests
   and results logged, and TLC (Trace_Sighash) validates the log: the digest pycoin
   returned must be the spec's blob evaluated with the logged hash table, and the
   transaction after the call must equal the one before.
"""
from __future__ import annotations

import ast
import copy
import json
import os
import random
import tempfile

from ..ctx import REPO, MachineryError
from ..drv import sighash as drv
from ..par import NPROC, split

# ------------------------------------------------------------------ replay (spec -> code)

_TAB = {}


def _ht_class(ht):
    low = ht & 0x1F
    return "%s%s%s" % ({1: "ALL", 2: "NONE", 3: "SINGLE"}.get(low, "low5=other"),
                       "|ACP" if ht & 0x80 else "", "|FORKID" if ht & 0x40 else "")


_FEATS = ("base", "acp", "forkid", "single_out_of_range", "sig_pushes_in_script", "separators", "begin>0", "script>252")


def _instructions(script):
    """the instructions of a parseable script (used only to classify failing cases)"""
    out, pc = [], 0
    while pc < len(script):
        b = script[pc]
        n, h = (b, 1) if b < 76 else (script[pc + 1], 2) if b == 76 else \
            (int.from_bytes(script[pc + 1:pc + 3], "little"), 3) if b == 77 else \
            (int.from_bytes(script[pc + 1:pc + 5], "little"), 5) if b == 78 else (0, 1)
        out.append(script[pc:pc + h + n])
        pc += h + n
    return out


def _features(r, nouts):
    """class-level features of a request (request_json vocabulary)"""
    ht = r["ht"]
    script = bytes(r["script"])
    return {"base": {1: "ALL", 2: "NONE", 3: "SINGLE"}.get(ht & 0x1F, "other"),
            "acp": int(bool(ht & 0x80)), "forkid": int(bool(ht & 0x40)),
            "single_out_of_range": int((ht & 0x1F) == 3 and r["i"] > nouts),
            "sig_pushes_in_script": int(any(_push(bytes(x)) in _instructions(script) for x in r["sigs"])),
            "separators": int(b"\xab" in _instructions(script)), "begin>0": int(r["begin"] > 0), "script>252": int(len(script) > 252)}


def _group_keys(prefix, fails, universe):
    """fails: [(group tuple, features)], universe: group[:2] -> feature -> set of values exercised.
    One key per group = (coin, sigversion, what, via); a feature enters the key only when the
    failures are confined to some of the values that were exercised (so every input hitting one
    defect shares the key, and a defect confined to another class gets another key)."""
    by = {}
    for g, f in fails:
        d = by.setdefault(g, {k: set() for k in _FEATS})
        for k in _FEATS:
            d[k].add(f[k])
    keys = {}
    for g, d in by.items():
        u = universe.get(g[:2], {})
        parts = ["%s=%s" % (k, "+".join(str(v) for v in sorted(d[k], key=str)))
                 for k in _FEATS if d[k] != u.get(k, d[k])]
        if any(str(x).startswith("deviation=") or x == "history-dependent" for x in g):
            parts = []          # a wrong rule the spec knows by name: the name is the class
        keys[g] = "|".join([prefix] + [str(x) for x in g] + parts)
    return keys


def _run_case(tab, rec, cache):
    """execute one printed case on pycoin; returns None or a failure dict"""
    coin, sv, n, m, i, ht = rec["coin"], rec["sv"], rec["n"], rec["m"], rec["i"] - 1, rec["ht"]
    S = tab["scenarios"][rec["sc"] - 1]
    exp = drv.expected(rec["d"])
    amts = [rec["a"]] if rec["a"] else list(range(1, len(tab["amounts"]) + 1))
    for a in amts:
        amount = int.from_bytes(bytes(tab["amounts"][a - 1]), "little")
        key = (coin, n, m, i, a)
        if key not in cache:
            tx = drv.mk_tx(coin, tab["ver"], tab["ins"][:n], tab["outs"][:m], tab["lock"], i, amount,
                           witness=bool((n + m) & 1))
            # one checker per transaction, reused for every request (as Tx.check_solution's callers may)
            cache[key] = (tx, tx.SolutionChecker(tx), drv.project(tx))
        tx, checker, before = cache[key]
        obs = drv.observe(checker, sv, i, S["script"], S["begin"], S["sigs"], ht)
        after = drv.project(tx)
        bad = drv.judge(exp, obs)
        modified = after != before
        if bad or modified:
            fresh_tx = drv.mk_tx(coin, tab["ver"], tab["ins"][:n], tab["outs"][:m], tab["lock"], i, amount,
                                 witness=bool((n + m) & 1))
            fobs = drv.observe(fresh_tx.SolutionChecker(fresh_tx), sv, i, S["script"], S["begin"], S["sigs"], ht)
            del cache[key]
            what = "tx-modified" if (modified and not bad) else bad[0]
            if what == "digest":
                for dv in rec.get("dev", ()):
                    if drv.expected(dv["d"]) == bad[2]:
                        what = "deviation=" + dv["name"]
            return {"case": {k: rec[k] for k in ("coin", "sv", "n", "m", "i", "sc", "a", "ht")},
                    "what": what,
                    "via": bad[1] if bad else "project(tx)",
                    "expected": exp, "got": bad[2] if bad else None, "observations": obs,
                    "fresh_checker_agrees": drv.judge(exp, fobs) is None,
                    "tx": drv.tx_json(fresh_tx),
                    "request": drv.request_json(coin, sv, i, S["script"], S["begin"], S["sigs"], ht),
                    "features": _features(drv.request_json(coin, sv, i, S["script"], S["begin"], S["sigs"], ht), m),
                    "group": (coin, sv, what, "via=" + (bad[1] if bad else "project(tx)")),
                    "scenario": S, "amount": amount, "single_bug": (ht & 0x1F) == 3 and i >= m,
                    "tx_before": before, "tx_after": after if modified else None}
    return None


def _replay_chunk(args):
    tab, recs = args
    cache = {}
    out = []
    for rec in recs:
        f = _run_case(tab, rec, cache)
        if f is not None:
            out.append(f)
    return len(recs), out


class Replayer:
    """streams the records TLC prints into worker processes"""

    def __init__(self, ctx):
        import multiprocessing as mp
        self.ctx = ctx
        self.pool = mp.get_context("fork").Pool(NPROC)
        self.tab = None
        self.buf = []
        self.pending = []
        self.n = 0
        self.fails = []
        self.classes = set()
        self.first = None
        self.cands = []
        self.early = []
        self.universe = {}

    def feed(self, rec):
        if rec.get("k") == "tab":
            self.tab = rec
            early, self.early = self.early, []
            for r in early:
                self.feed(r)
            return
        if rec.get("k") != "case":
            return
        if self.tab is None:
            self.early.append(rec)
            return
        S = self.tab["scenarios"][rec["sc"] - 1]
        ft = _features({"ht": rec["ht"], "i": rec["i"], "script": S["script"], "sigs": S["sigs"], "begin": S["begin"]}, rec["m"])
        u = self.universe.setdefault((rec["coin"], rec["sv"]), {k: set() for k in _FEATS})
        for k in _FEATS:
            u[k].add(ft[k])
        self.n += 1
        if rec["d"][0]["k"] not in ("refuse", "any"):
            if self.first is None and rec["sc"] != 1:
                self.first = rec
            if len(self.cands) < 60 and self.n % 977 == 1:
                self.cands.append(rec)
        self.classes.add((rec["coin"], rec["sv"], _ht_class(rec["ht"]), rec["n"], rec["m"], rec["i"], rec["sc"]))
        self.buf.append(rec)
        if len(self.buf) >= 500 and self.tab is not None:
            self._flush()

    def _flush(self):
        if self.buf:
            if self.tab is None:
                raise MachineryError("MC_SighashReplay printed cases but no table")
            self.pending.append(self.pool.apply_async(_replay_chunk, ((self.tab, self.buf),)))
            self.buf = []
        while len(self.pending) > 6 * NPROC:
            self._collect(self.pending.pop(0))

    def _collect(self, ar):
        n, fails = ar.get()
        self.fails += fails

    def finish(self):
        if self.early:
            raise MachineryError("MC_SighashReplay printed cases but no table")
        self._flush()
        for ar in self.pending:
            self._collect(ar)
        self.pending = []
        self.pool.close()
        self.pool.join()
        return self.fails


def stage_replay(ctx):
    if ctx.quick:
        return replay_cfg(ctx, "MC_SighashReplay_q")
    # Litecoin shares Bitcoin's checker class: a smaller product is enough to bind it
    replay_cfg(ctx, "MC_SighashReplay_ltc", selftest=False)
    return replay_cfg(ctx, "MC_SighashReplay_t")


def replay_cfg(ctx, cfg, selftest=True):
    rp = Replayer(ctx)
    ctx.tlc("MC_SighashReplay", cfg, on_record=rp.feed, keep_records=False, timeout=3000)
    fails = rp.finish()
    ctx.log("replayed %d cases of %s on pycoin: %d disagree" % (rp.n, cfg, len(fails)))
    if rp.n == 0:
        raise MachineryError("MC_SighashReplay printed no case")
    ctx.replayed += rp.n
    ctx.case(None, rp.n)
    ctx.action("replay." + cfg, rp.n)
    for k in rp.classes:
        ctx.case(("replay",) + k, 0)
    if rp.first is not None:
        ctx.sample({"replay_case": rp.first})
    keys = _group_keys("C04|replay", [(f["group"], f["features"]) for f in fails], rp.universe)
    for f in fails:
        c = f["case"]
        ctx.fail(keys[f["group"]],
                 "pycoin %s/%s input %d of %d, %d outputs, hash type 0x%02x, scenario %d: %s via %s: spec demands %s, pycoin gave %s" % (
                     c["coin"], c["sv"], c["i"], c["n"], c["m"], c["ht"], c["sc"], f["what"], f["via"],
                     _fmt(f["expected"]), _fmt(f["got"])), f)
    if not selftest:
        return rp
    # binding self-test: corrupt the expectation of one case; the comparison must notice
    # (on a case pycoin passes; if pycoin passes none of the candidates there is nothing to corrupt)
    passing = [c for c in rp.cands if c["d"][0]["k"] != "b" and _run_case(rp.tab, c, {}) is None][:1]
    if passing:
        rec = copy.deepcopy(passing[0])
        pre = rec["d"][0]["x"]
        lit = [c for c in pre if c["k"] == "b"][-1]
        lit["v"][0] ^= 1
        ctx.selftest("replay_rejects_corrupted_expectation", _run_case(rp.tab, rec, {}) is not None)
    elif not fails:
        raise MachineryError("no replay case available for the binding self-test")
    return rp


def _fmt(x):
    if x is None:
        return "-"
    if x[0] == "digest":
        return "%064x" % x[1]
    return ":".join(str(y) for y in x)


# ------------------------------------------------------------------ histories (spec -> code, long-lived objects)

def _hist_tx(fields, coin):
    """a fresh transaction object with the fields the spec prints (ShowT)"""
    tx = drv.mk_tx(coin, fields["ver"], fields["ins"], fields["outs"], fields["lock"], 0, 0, witness=True)
    Tx = drv.network(coin).tx
    tx.unspents = [Tx.TxOut(int.from_bytes(bytes(a), "little"), b"\x51" * (j + 1)) for j, a in enumerate(fields["amts"])]
    return tx


def _hist_args(tab, r):
    S = tab["scripts"][r["s"] - 1]
    return (r["sv"], r["i"] - 1, bytes(S["script"]), S["sep"] if r["b"] == 1 else 0,
            [bytes(x) for x in tab["sigsets"][r["g"] - 1]], r["ht"])


def _run_history(tab, rec, style=0):
    """one printed history on ONE transaction / checker / closure set: requests are answered by the
    long-lived objects, edits are applied to the live transaction object; each request is also put
    to fresh objects built from the fields the spec prints for that moment.  Returns None or a
    failure dict (first failing step)."""
    coin = rec["coin"]
    fields = tab["start"]
    tx = _hist_tx(fields, coin)
    before = drv.project(tx)
    session = drv.Session(tx)
    for k, st in enumerate(rec["steps"]):
        if st["k"] == "edit":
            fields = st["after"]
            drv.apply_edit(coin, tx, st["e"], fields, style)
            before = drv.project(tx)
            if before != drv.project(_hist_tx(fields, coin)):
                raise MachineryError("edit %r was not applied to the object as the spec states it" % (st["e"],))
            continue
        r = st["r"]
        exp = drv.expected(st["exp"])
        args = _hist_args(tab, r)
        o = session.ask(*args)
        bad = drv.judge(exp, [("long-lived closure", o)])
        modified = drv.project(tx) != before
        ftx = _hist_tx(fields, coin)
        fo = drv.Session(ftx).ask(*args)
        fbad = drv.judge(exp, [("fresh closure", fo)])
        if bad or modified or fbad:
            mo = None
            if modified:
                what = "tx-modified"
            elif bad and not fbad:
                # right on fresh objects, wrong after the earlier steps: who remembers - the checker /
                # closure, or the transaction object itself (then a new checker on it is wrong too)?
                mo = drv.Session(tx).ask(*args)
                what = "history-dependent" if drv.judge(exp, [("", mo)]) is None else "tx-object-history-dependent"
            else:
                what = (fbad or bad)[0]
            return {"coin": coin, "sv": r["sv"], "what": what, "step": k + 1,
                    "history": [q.get("r") or q["e"] for q in rec["steps"][:k + 1]],
                    "expected": exp, "long_lived": o, "fresh": fo, "new_checker_on_live_tx": mo,
                    "tx": drv.tx_json(ftx), "request": drv.request_json(coin, *args), "edit_style": style,
                    "earlier_steps": [drv.request_json(coin, *_hist_args(tab, q["r"])) if q["k"] == "ask" else q["e"]
                                      for q in rec["steps"][:k]]}
    return None


def _history_chunk(args):
    tab, recs = args
    out = []
    for rec in recs:
        # (without edits the two styles are the same run)
        for style in ((0, 1) if any(st["k"] == "edit" for st in rec["steps"]) else (0,)):
            f = _run_history(tab, rec, style)
            if f is not None:
                out.append(f)
                break
    return len(recs), out


class HistoryReplayer(Replayer):
    def feed(self, rec):
        if rec.get("k") == "tab":
            self.tab = rec
            early, self.early = self.early, []
            for r in early:
                self.feed(r)
            return
        if rec.get("k") != "hist":
            return
        if self.tab is None:
            self.early.append(rec)
            return
        self.n += 1
        if len(self.cands) < 40 and self.n % 499 == 1:
            self.cands.append(rec)
        self.classes.add((rec["coin"], tuple((st["r"]["sv"], st["r"]["b"], st["r"]["g"]) if st["k"] == "ask" else st["e"]["f"]
                                             for st in rec["steps"])))
        self.buf.append(rec)
        if len(self.buf) >= 200:
            self._flush()

    def _flush(self):
        if self.buf:
            self.pending.append(self.pool.apply_async(_history_chunk, ((self.tab, self.buf),)))
            self.buf = []
        while len(self.pending) > 6 * NPROC:
            self._collect(self.pending.pop(0))


def stage_history(ctx):
    """sequences of requests on one closure / one checker / one transaction object"""
    total = 0
    for cfg in (("MC_SighashHistory_q", "MC_SighashHistory_q3", "MC_SighashHistory_qe") if ctx.quick else
                ("MC_SighashHistory_t", "MC_SighashHistory_t3", "MC_SighashHistory_te")):
        rp = HistoryReplayer(ctx)
        ctx.tlc("MC_SighashHistory", cfg, on_record=rp.feed, keep_records=False, timeout=3000)
        fails = rp.finish()
        if rp.n == 0:
            raise MachineryError("%s printed no history" % cfg)
        nreq = rp.n * sum(st["k"] == "ask" for st in rp.cands[0]["steps"])
        nedit = rp.n * sum(st["k"] == "edit" for st in rp.cands[0]["steps"])
        ctx.log("replayed %d histories (%d requests, each also on fresh objects%s) of %s on pycoin: %d disagree" % (
            rp.n, nreq, ", %d edits of the live object, each in two styles" % nedit if nedit else "", cfg, len(fails)))
        ctx.replayed += rp.n
        ctx.case(None, 2 * nreq)
        ctx.action("history." + cfg, rp.n)
        for k in rp.classes:
            ctx.case(("history",) + k, 0)
        total += rp.n
        for f in fails:
            ctx.fail("C04|history|%s|%s|%s" % (f["coin"], f["sv"], f["what"]),
                     "%s/%s step %d of a history on one transaction object/SolutionChecker/closure: %s: spec demands %s, the long-lived closure gave %s, "
                     "a fresh one %s (history: %s)" % (f["coin"], f["sv"], f["step"], f["what"], _fmt(f["expected"]),
                                                      _fmt(f["long_lived"]), _fmt(f["fresh"]), f["history"]), f)
        if not cfg.endswith("3"):
            ctx.sample({"history": {"coin": rp.cands[0]["coin"],
                                    "steps": [st.get("r") or st["e"] for st in rp.cands[0]["steps"]]}})
            passing = [c for c in rp.cands if c["steps"][-1]["exp"][0]["k"] not in ("refuse", "any", "b")
                       and _run_history(rp.tab, c) is None][:1]
            if passing:
                rec = copy.deepcopy(passing[0])
                lit = [c for c in rec["steps"][-1]["exp"][0]["x"] if c["k"] == "b"][-1]
                lit["v"][0] ^= 1
                f = _run_history(rp.tab, rec)
                ctx.selftest("history%s_rejects_corrupted_expectation" % ("_with_edit" if cfg.endswith("e") else ""),
                             f is not None and f["step"] == len(rec["steps"]))
            elif not fails:
                raise MachineryError("no history available for the binding self-test")
    return total


# ------------------------------------------------------------------ TLC as a function: requests -> digest blobs

def spec_terms(ctx, cases, workers=8):
    """cases: [{"tx": tx_json, "r": request_json}] -> [{d, dev}] printed by MC_SighashCases"""
    if not cases:
        return []
    fd, path = tempfile.mkstemp(prefix="vf-c04-cases-", suffix=".json")
    with os.fdopen(fd, "w") as f:
        json.dump(cases, f)
    try:
        r = ctx.tlc("MC_SighashCases", "MC_SighashCases", workers=workers, env={"CASE_FILE": path},
                    count=False, timeout=1500)
    finally:
        os.unlink(path)
    out = [None] * len(cases)
    for rec in r.records:
        if rec.get("k") == "term":
            out[rec["id"] - 1] = rec
    if any(o is None for o in out):
        raise MachineryError("MC_SighashCases printed %d of %d terms" % (sum(o is not None for o in out), len(cases)))
    return out


# ------------------------------------------------------------------ ground truth (R2)

def _flag_mask(net, names):
    v = 0
    for f in names.split(","):
        if f and f != "NONE":
            v |= getattr(net.validator.flags, "VERIFY_" + f)
    return v


def _gt_transactions():
    """(label, coin, tx with unspents, flags) from the vectors shipped with the repository"""
    from pycoin.encoding.hexbytes import h2b, h2b_rev
    out = []
    net = drv.network("BTC")
    # 1. Bitcoin Core's tx_valid.json
    for vec in json.load(open(os.path.join(REPO, "tests/btc/data/tx_valid.json"))):
        if len(vec) != 3:
            continue
        prevouts, tx_hex, flag_names = vec
        tx = net.tx.from_hex(tx_hex)
        db = {}
        for po in prevouts:
            sp = net.tx.Spendable(coin_value=po[3] if len(po) == 4 else 1000000, script=net.script.compile(po[2]),
                                  tx_hash=h2b_rev(po[0]), tx_out_index=po[1] % (1 << 32))
            db[(sp.tx_hash, sp.tx_out_index)] = sp
        blank = net.tx.Spendable(0, b"", b"\0" * 32, 0)
        tx.set_unspents([db.get((t.previous_hash, t.previous_index), blank) for t in tx.txs_in])
        out.append(("tx_valid.json", "BTC", tx, _flag_mask(net, flag_names)))
    # 2. the signed example transactions of BIP143 (tests/btc/segwit_test.py: check_bip143_tx(...))
    src = open(os.path.join(REPO, "tests/btc/segwit_test.py")).read()
    for node in ast.walk(ast.parse(src)):
        if isinstance(node, ast.Call) and getattr(node.func, "attr", "") == "check_bip143_tx":
            try:
                args = [ast.literal_eval(a) for a in node.args]
            except ValueError:
                continue
            tx = net.tx.from_hex(args[1])
            tx.set_unspents([net.tx.TxOut(int(v * 1e8), h2b(sh)) for v, sh in args[2]])
            out.append(("BIP143 examples", "BTC", tx, None))
    # 3. a Bitcoin Cash main-chain transaction (SIGHASH_ALL|FORKID) with the transaction it spends
    fn = os.path.join(REPO, "tests/cmds/test_cases/tx/bcash-validate.txt")
    if os.path.exists(fn):
        words = open(fn).readline().split()
        hexes = [w for w in words if len(w) > 100]
        if len(hexes) == 2:
            bch = drv.network("BCH")
            prev, tx = bch.tx.from_hex(hexes[0]), bch.tx.from_hex(hexes[1])
            if all(t.previous_hash == prev.hash() for t in tx.txs_in):
                tx.set_unspents([prev.txs_out[t.previous_index] for t in tx.txs_in])
                out.append(("bcash-validate.txt", "BCH", tx, None))
    return out


def _gt_collect(item):
    label, coin, tx, flags = item
    before = drv.project(tx)
    txj = drv.tx_json(tx)        # the transaction as it is BEFORE pycoin touches it
    checks, verdicts = drv.collect_signature_checks(coin, tx, flags)
    seen = set()
    out = []
    for c in checks:
        k = (c["sv"], c["i"], c["script"], c["begin"], tuple(c["sigs"]), c["ht"], c["public_pair"], c["sig"])
        if k in seen:
            continue
        seen.add(k)
        out.append({"label": label, "coin": coin, "tx": txj,
                    "r": drv.request_json(coin, c["sv"], c["i"], c["script"], c["begin"], c["sigs"], c["ht"] & 0xFF),
                    "ht_full": c["ht"], "val": c["val"], "ok": c["ok"], "public_pair": c["public_pair"], "sig": c["sig"],
                    "unchanged": drv.project(tx) == before})
    return out, all(verdicts)


def _gt_verify(item):
    c, digest = item
    return drv.verify_digest(c["public_pair"], digest, c["sig"])


def stage_vectors(ctx):
    from ..par import pmap
    items = _gt_transactions()
    labels = sorted(set(i[0] for i in items))
    ctx.log("ground truth: %d transactions from %s" % (len(items), labels))
    if len(items) < 80:
        raise MachineryError("ground-truth vectors missing (found %d transactions)" % len(items))
    cases = []
    for res, allok in map(_gt_collect, items):     # (about 1 ms per signature with the OpenSSL backend)
        cases += res
    terms = spec_terms(ctx, [{"tx": c["tx"], "r": c["r"]} for c in cases])
    exp = [drv.expected(t["d"]) for t in terms]
    todo = [(c, e[1]) for c, e in zip(cases, exp) if e[0] == "digest"]
    oks = iter(pmap(_gt_verify, todo, procs=min(NPROC, 8)) if len(todo) > 2000 else list(map(_gt_verify, todo)))
    confirmed = proven_bad = unproven = spec_wrong = 0
    classes = {}
    for c, e, t in zip(cases, exp, terms):
        r = c["r"]
        cls = "%s|%s|%s" % (c["coin"], r["sv"], _ht_class(r["ht"]))
        ctx.case(None, 1)
        if e[0] != "digest":
            # the rule book refuses / leaves open: nothing a signature can prove
            if c["ok"]:
                spec_wrong += 1
                ctx.log("spec refuses a request whose signature pycoin verified: %s" % (r,))
            continue
        spec_ok = next(oks)
        if spec_ok:
            # the signature verifies on the digest the spec demands: the spec is right for this request
            if c["val"] == e[1]:
                confirmed += 1
                classes[cls] = classes.get(cls, 0) + 1
                ctx.case(("vector", cls, len(r["sigs"]), r["begin"] > 0, r["i"], len(c["tx"]["ins"]), len(c["tx"]["outs"])), 0)
            else:
                proven_bad += 1
                what = "digest"
                for dv in t["dev"]:
                    if drv.expected(dv["d"])[1] == c["val"]:
                        what = "deviation=" + dv["name"]
                ctx.fail("C04|vector|%s|%s" % (cls, what),
                         "a signature of a valid transaction (%s) verifies on the spec's digest %064x but pycoin computed %064x "
                         "(input %d, hash type 0x%02x)" % (c["label"], e[1], c["val"], r["i"], r["ht"]),
                         {"request": r, "tx": c["tx"], "spec_digest": "%064x" % e[1], "pycoin_digest": "%064x" % c["val"]})
            if not c["unchanged"]:
                ctx.fail("C04|vector|%s|tx-modified" % cls, "validating %s changed the transaction object" % c["label"], {"request": r})
        elif c["ok"]:
            spec_wrong += 1
            ctx.log("SPEC WRONG? pycoin's digest verifies, the spec's does not: %s %s" % (c["label"], r))
        elif c["val"] != e[1]:
            unproven += 1
    ctx.log("ground truth: %d signature checks; spec digest proven by the signature and equal to pycoin's: %d; "
            "proven and pycoin differs: %d; no signature decides and digests differ: %d" % (
                len(cases), confirmed, proven_bad, unproven))
    ctx.extra["vector_signature_checks"] = len(cases)
    ctx.extra["vector_confirmed_by_class"] = dict(sorted(classes.items()))
    if spec_wrong:
        raise MachineryError("Sighash.tla disagrees with %d signatures that verify on pycoin's digest: the spec is wrong" % spec_wrong)
    if confirmed + proven_bad < 100:
        raise MachineryError("only %d ground-truth signatures decided anything (expected >= 100)" % (confirmed + proven_bad))
    if unproven and not proven_bad:
        raise MachineryError("spec and pycoin differ on %d requests that no signature decides" % unproven)
    ctx.action("vectors.confirmed", confirmed)
    if cases:
        c = cases[0]
        ctx.sample({"vector": {"label": c["label"], "request": c["r"], "digest": "%064x" % c["val"]}})


# ------------------------------------------------------------------ traces (code -> spec)

_STD_HT = (1, 2, 3, 0x81, 0x82, 0x83, 0x41, 0x42, 0x43, 0xC1, 0xC2, 0xC3)
_PLAIN_OPS = (0x00, 0x4F, 0x51, 0x52, 0x60, 0x61, 0x63, 0x67, 0x68, 0x69, 0x75, 0x76, 0x87, 0x88, 0x93,
              0xA9, 0xAA, 0xAC, 0xAD, 0xAE, 0xAF, 0xB1, 0xB2, 0xFF)


def _push(d):
    """a well-formed push instruction (any encoding, not necessarily the shortest)"""
    n = len(d)
    if n < 76:
        return bytes([n]) + d
    if n < 256:
        return b"\x4c" + bytes([n]) + d
    return b"\x4d" + n.to_bytes(2, "little") + d


def _rand_sig(rnd):
    """a signature blob: usual sizes, both sides of the push-opcode boundaries 75 | 76 and 255 | 256
    (long ones as the lax DER parser takes them: long-form lengths, R padded with zero bytes)"""
    n = rnd.choice((9, 9, 60, 71, 72, 72, 73, 73, 74, 75, 76, 77, 80, 254, 255, 255, 256, 257))
    if n < 131:
        return b"\x30" + bytes([n - 3]) + rnd.randbytes(n - 3) + bytes([rnd.randrange(256)])
    body = b"\x02\x81" + bytes([n - 41]) + bytes(n - 73) + rnd.randbytes(32) + b"\x02\x20" + rnd.randbytes(32)
    return b"\x30\x81" + bytes([len(body)]) + body + bytes([rnd.randrange(256)])


def _rand_script(rnd, sigs, big):
    """random parseable script: pushes of every encoding, OP_CODESEPARATORs, 0xab bytes inside
    push data, pushes of the signatures (aligned, and hidden inside larger pushes)"""
    parts = []
    for _ in range(rnd.randrange(0, 40 if big else 12)):
        r = rnd.random()
        if r < 0.12:
            parts.append(b"\xab")
        elif r < 0.30 and sigs:
            sg = rnd.choice(sigs)
            q = rnd.random()
            if q < 0.6:
                parts.append(_push(sg))                           # what FindAndDelete looks for
            elif q < 0.8:
                # the next larger push opcode: a well-formed push of the blob, but not the pattern
                parts.append(b"\x4c" + bytes([len(sg)]) + sg if len(sg) < 76 else
                             b"\x4d" + len(sg).to_bytes(2, "little") + sg if len(sg) < 256 else
                             b"\x4e" + len(sg).to_bytes(4, "little") + sg)
            else:
                parts.append(_push(b"\x00" + _push(sg)))           # inside push data
        elif r < 0.6:
            n = rnd.choice((0, 1, 1, 2, 20, 32, 33, 65, 75, 76, 77, 255, 256, 300, 520)) if big else rnd.choice((0, 1, 2, 20, 33, 75, 76))
            d = bytes(rnd.choice((0xAB, rnd.randrange(256))) for _ in range(n))
            parts.append(_push(d) if rnd.random() < 0.85 else b"\x4d" + n.to_bytes(2, "little") + d)
        else:
            parts.append(bytes([rnd.choice(_PLAIN_OPS)]))
    return parts


def _rand_tx_fields(rnd, nin, nout):
    ver = rnd.choice((1, 2, 0xFFFFFFFF, rnd.randrange(1 << 32)))
    lock = rnd.choice((0, 17, 499999999, 500000000, 0xFFFFFFFF, rnd.randrange(1 << 32)))
    ins = [{"prev": list(rnd.randbytes(32)),
            "idx": list(rnd.choice((0, 1, 0xFFFFFFFF, rnd.randrange(1 << 32))).to_bytes(4, "little")),
            "script": list(rnd.randbytes(rnd.choice((0, 0, 1, 72, 107, 253)))),
            "seq": list(rnd.choice((0, 0xFFFFFFFF, 0xFFFFFFFE, 0x80000000, rnd.randrange(1 << 32))).to_bytes(4, "little"))}
           for _ in range(nin)]
    outs = [{"val": list(rnd.choice((0, 1, 546, 21 * 10 ** 14, (1 << 63) - 1, 1 << 63, (1 << 64) - 1, rnd.randrange(1 << 64))).to_bytes(8, "little")),
             "script": list(rnd.randbytes(rnd.choice((0, 1, 22, 23, 25, 34, 252, 253, 300))))}
            for _ in range(nout)]
    return ver, ins, outs, lock


def record_traces(seed, count, big_every=25):
    """seeded runs of the real code on inputs beyond the replay grid"""
    rnd = random.Random(seed)
    traces = []
    for t in range(count):
        coin = drv.COINS[t % len(drv.COINS)]
        huge = big_every and t % big_every == big_every - 1
        nin = rnd.choice((253, 260)) if huge and t % 2 else rnd.randint(1, 12)
        nout = rnd.choice((253, 300)) if huge and not t % 2 else rnd.randint(0, 12)
        ver, ins, outs, lock = _rand_tx_fields(rnd, nin, nout)
        Tx = drv.network(coin).tx
        tx = drv.mk_tx(coin, list(ver.to_bytes(4, "little")), ins, outs, list(lock.to_bytes(4, "little")), 0,
                       rnd.randrange(1 << 64), witness=rnd.random() < 0.5)
        # the coins spent: independent random amounts
        tx.unspents = [Tx.TxOut(rnd.choice((0, 1, 10 ** 8, (1 << 64) - 1, rnd.randrange(1 << 64))), rnd.randbytes(rnd.choice((0, 22, 25))))
                       for _ in range(nin)]
        reqs = []
        svs = ("base",) if coin == "BCH" else ("base", "witness_v0")
        for _ in range(2 if huge else rnd.randint(3, 7)):
            sigs = [_rand_sig(rnd) for _ in range(rnd.choice((0, 1, 1, 2, 3)))]
            parts = _rand_script(rnd, sigs, big=rnd.random() < 0.4)
            script = b"".join(parts)
            # code-separator offset: just after one of the (aligned) separators, or 0
            seps = [sum(len(p) for p in parts[:k + 1]) for k, p in enumerate(parts) if p == b"\xab"]
            begin = rnd.choice(seps) if seps and rnd.random() < 0.5 else 0
            ht = rnd.choice(_STD_HT) if rnd.random() < 0.5 else rnd.randrange(256)
            i = rnd.randrange(nin)
            if rnd.random() < 0.25 and nin > nout:
                i, ht = rnd.randrange(nout, nin), (ht & 0xE0) | 3          # SIGHASH_SINGLE without an output
            sv = rnd.choice(svs)
            reqs.append(("ask", sv, i, script, begin, sigs, ht))
            # HISTORY: the next signature check of the same script evaluation - same closure, same
            # script, same hash type, but other signatures to remove (some occur in the script, some
            # do not) or another code-separator offset
            while not huge and rnd.random() < 0.45:
                q = rnd.random()
                if q < 0.3:
                    sigs2, begin2 = [_rand_sig(rnd)], begin                      # occurs nowhere
                elif q < 0.55:
                    sigs2, begin2 = sigs[:rnd.randrange(len(sigs) + 1)], begin   # a prefix (possibly none)
                elif q < 0.75:
                    sigs2, begin2 = sigs[::-1] + [_rand_sig(rnd)], begin
                elif q < 0.88:
                    sigs2, begin2 = sigs, (rnd.choice(seps) if seps else 0)
                else:
                    sigs2, begin2, i = sigs, begin, rnd.randrange(nin)           # the same check for another input
                reqs.append(("ask", sv, i, script, begin2, sigs2, ht if rnd.random() < 0.8 else rnd.choice(_STD_HT)))
                sigs, begin = sigs2, begin2
            # HISTORY: the owner edits the transaction object, then the same check (or the same for another
            # input / hash type) is made again through the same checker and closures
            if not huge and rnd.random() < 0.4:
                reqs.append(("edit", rnd.randrange(1 << 30)))
                q = rnd.random()
                reqs.append(("ask", sv, i if q < 0.7 else rnd.randrange(nin), script, begin, sigs,
                             ht if q < 0.85 else rnd.choice(_STD_HT)))
        before = drv.tx_json(tx)
        evs = drv.run_trace(coin, tx, reqs)
        traces.append({"coin": coin, "tx": before, "ev": evs, "py_unchanged": all(e.get("py_unchanged", True) for e in evs)})
    return traces


def validate_traces(ctx, traces):
    """two TLC passes: (1) MC_SighashCases prints the blob of every logged request and the harness
    evaluates its hash nodes (hashlib) into the event's table; (2) Trace_Sighash accepts or rejects.
    Returns (rejected trace indices, per-event info for diagnostics)."""
    flat = []
    for t in traces:
        cur = t["tx"]
        for e in t["ev"]:
            if e["k"] == "ask":
                flat.append({"tx": cur, "r": e["r"]})       # the fields the object has when the request is made
            cur = e["after"]
    terms = iter(spec_terms(ctx, flat))
    info = []
    data = []
    for t in traces:
        evs = []
        for e in t["ev"]:
            if e["k"] == "edit":
                info.append((None, []))
                evs.append({"k": "edit", "after": e["after"]})
                continue
            term = next(terms)
            tab = []
            exp = None
            if term["d"][0]["k"] not in ("refuse", "any"):
                exp = drv.ev(term["d"], tab)
            devs = [(dv["name"], drv.ev(dv["d"])) for dv in term["dev"]]
            info.append((exp, devs))
            evs.append({"k": "ask", "r": e["r"], "raised": e["raised"], "res": e["res"], "after": e["after"],
                        "tab": [{"f": f, "in": list(x), "out": list(d)} for f, x, d in tab]})
        data.append({"tx": t["tx"], "ev": evs})
    fd, path = tempfile.mkstemp(prefix="vf-c04-traces-", suffix=".json")
    with os.fdopen(fd, "w") as f:
        json.dump(data, f)
    try:
        r = ctx.tlc("Trace_Sighash", "Trace_Sighash", workers=1, env={"TRACE_FILE": path}, count=False, timeout=1500)
    finally:
        os.unlink(path)
    verdict = [rec for rec in r.records if rec.get("k") == "rejected"]
    if len(verdict) != 1 or verdict[0]["n"] != len(traces):
        raise MachineryError("trace run printed no verdict for %d traces: %s" % (len(traces), r.raw_tail[-5:]))
    return sorted(x - 1 for x in verdict[0]["ids"]), info


def _trace_diagnosis(t, info):
    """why TLC rejected: the first event whose logged outcome is not the spec's.
    Returns (group, event, fields of the transaction at that event): group = (coin, sigversion, what)"""
    cur = t["tx"]
    for e, (exp, devs) in zip(t["ev"], info):
        if e["k"] == "edit":
            cur = e["after"]
            continue
        r = e["r"]
        if e["after"] != cur:
            return (r["coin"], r["sv"], "tx-modified"), e, cur
        if exp is None:
            continue
        got = bytes(e["res"])
        if e["raised"] or got != exp:
            for name, d in devs:
                if got == d:
                    return (r["coin"], r["sv"], "deviation=" + name), e, cur
            # the same request on fresh objects: right there means the long-lived closure remembered
            ftx = drv.tx_from_json(r["coin"], cur)
            fo = drv.Session(ftx).ask(r["sv"], r["i"] - 1, bytes(r["script"]), r["begin"], [bytes(x) for x in r["sigs"]], r["ht"])
            if fo == ("digest", int.from_bytes(exp, "big")):
                return (r["coin"], r["sv"], "history-dependent"), e, cur
            return (r["coin"], r["sv"], "raised" if e["raised"] else "digest"), e, cur
    for e, (exp, devs) in zip(t["ev"], info):
        if e["k"] == "ask" and exp is None and not e["raised"] and e["r"]["sv"] == "base":
            return (e["r"]["coin"], e["r"]["sv"], "not-refused"), e, t["tx"]
    return (t["coin"], "-", "rejected-for-unknown-reason"), t["ev"][0], t["tx"]


def stage_traces(ctx):
    ntr = 120 if ctx.quick else 600
    traces = record_traces(ctx.seed * 7919 + 4, ntr)
    nev = sum(e["k"] == "ask" for t in traces for e in t["ev"])
    ctx.log("recorded %d traces (%d sighash requests, %d edits of the transaction object in between) on random transactions" % (
        len(traces), nev, sum(e["k"] == "edit" for t in traces for e in t["ev"])))
    pos = 0
    accepted = []
    rejected = []
    universe = {}
    for t in traces:
        for e in t["ev"]:
            if e["k"] != "ask":
                continue
            u = universe.setdefault((e["r"]["coin"], e["r"]["sv"]), {k: set() for k in _FEATS})
            ft = _features(e["r"], e["nouts"])
            for k in _FEATS:
                u[k].add(ft[k])
    for chunk in split(traces, max(1, len(traces) // 300)):
        rej, info = validate_traces(ctx, chunk)
        accepted += [t for k, t in enumerate(chunk) if k not in rej]
        ctx.traces += len(chunk) - len(rej)
        ctx.case(None, sum(e["k"] == "ask" for t in chunk for e in t["ev"]))
        off = [0]
        for t in chunk:
            off.append(off[-1] + len(t["ev"]))
        for k, t in enumerate(chunk):
            ctx.case(("trace", t["coin"], min(len(t["tx"]["ins"]), 13), min(len(t["tx"]["outs"]), 13),
                      tuple(sorted(set(_ht_class(e["r"]["ht"]) if e["k"] == "ask" else "edit:" + e["what"] for e in t["ev"])))), 0)
            if not t["py_unchanged"]:
                ctx.fail("C04|trace|%s|tx-object-modified" % t["coin"], "the transaction object changed during a trace", {"tx": t["tx"]})
        for k in rej:
            t = chunk[k]
            g, e, cur = _trace_diagnosis(t, info[off[k]:off[k + 1]])
            rejected.append((g, _features(e["r"], e["nouts"]), dict(t, tx=cur), e))
        if pos == 0:
            small = min(chunk, key=lambda t: len(json.dumps(t["tx"])))
            ctx.sample({"trace": {"coin": small["coin"], "tx": small["tx"],
                                  "events": [{"r": e["r"], "res": bytes(e["res"]).hex()} if e["k"] == "ask" else {"edit": e["what"]}
                                             for e in small["ev"][:2]]}})
        pos += len(chunk)
    keys = _group_keys("C04|trace", [(g, ft) for g, ft, t, e in rejected], universe)
    for g, ft, t, e in rejected:
        ctx.fail(keys[g], "recorded pycoin run is not a behaviour of Sighash.tla: %s request input %d hash type 0x%02x returned %s" % (
            e["r"]["coin"] + "/" + e["r"]["sv"], e["r"]["i"], e["r"]["ht"], bytes(e["res"]).hex() or "an exception"),
            {"tx": t["tx"], "request": e["r"], "event": e})
    # binding self-test: corrupt one logged field of accepted traces
    good = [t for t in accepted if len(t["tx"]["ins"]) < 20 and t["ev"][-1]["res"] and t["coin"] != "BCH"][:1]
    if good:
        b1 = copy.deepcopy(good[0])
        b1["ev"][-1]["res"][5] ^= 0x10                       # a digest pycoin did not return
        b2 = copy.deepcopy(good[0])
        b2["ev"][0]["after"]["ins"][0]["seq"][0] ^= 1        # a transaction that was modified
        b3 = copy.deepcopy(good[0])
        b3["tx"]["lock"][0] ^= 1                             # another transaction than the one hashed
        for e in b3["ev"]:
            e["after"]["lock"][0] ^= 1
        rej, _ = validate_traces(ctx, [good[0], b1, b2, b3])
        ctx.selftest("trace_rejects_corrupted_field", rej == [1, 2, 3])


# ------------------------------------------------------------------ model checking

def stage_model(ctx):
    q = ctx.quick
    ctx.tlc("MC_Sighash", "MC_Sighash_q" if q else "MC_Sighash_t", coverage=not q, timeout=3000,
            require_actions=() if q else ("Request", "Compute"))
    ctx.tlc("MC_SighashScript", "MC_SighashScript_q" if q else "MC_SighashScript_t", timeout=3000)
    # the lemmas must reject mis-transcribed rules
    r1 = ctx.tlc("MC_Sighash", "MC_Sighash_bad1", expect_ok=False, count=False, workers=4)
    ctx.selftest("model_rejects_unblanked_hashSequence", (not r1.ok) and r1.violated == "CommitmentLemma")
    # a memo that forgets the removed signatures / the code-separator offset breaks history independence
    # ... and one that forgets the fields of the transaction returns a stale digest after an edit
    for bad in ("badNoSigs", "badNoBegin", "badNoTx"):
        rb = ctx.tlc("MC_SighashHistory", "MC_SighashHistory_" + bad, expect_ok=False, count=False, workers=2)
        ctx.selftest("model_rejects_memo_" + bad[3:], (not rb.ok) and rb.violated == "HistoryIndependent")
    r2 = ctx.tlc("MC_Sighash", "MC_Sighash_bad2", expect_ok=False, count=False, workers=4)
    ctx.selftest("model_rejects_mask_0x03", (not r2.ok) and r2.violated in ("MaskLemma", "TwoFormsLemma"))


def replay(ctx, obj):
    """./check C04 --replay FILE : re-run one failing request (spec digest from TLC, then pycoin)"""
    d = obj.get("detail") or {}
    if "request" not in d or "tx" not in d:
        print(json.dumps(obj, indent=1)[:4000])
        return
    r, txj = d["request"], d["tx"]
    term = spec_terms(ctx, [{"tx": txj, "r": r}], workers=1)[0]
    exp = drv.expected(term["d"])
    tx = drv.tx_from_json(r["coin"], txj)
    before = drv.project(tx)
    obs = drv.observe(tx.SolutionChecker(tx), r["sv"], r["i"] - 1, bytes(r["script"]), r["begin"],
                      [bytes(x) for x in r["sigs"]], r["ht"])
    bad = drv.judge(exp, obs)
    print("request : %s/%s input %d (1-based) of %d, %d outputs, hash type 0x%02x, code-separator offset %d, %d signature(s) to remove" % (
        r["coin"], r["sv"], r["i"], len(txj["ins"]), len(txj["outs"]), r["ht"], r["begin"], len(r["sigs"])))
    print("script  : %s" % bytes(r["script"]).hex())
    if exp[0] == "digest" and term["d"][0]["k"] != "b":
        pre = term["d"][0]["x"]
        print("spec preimage (%s): %s" % (term["d"][0]["k"], drv.ev(pre).hex()))
    print("spec    : %s" % _fmt(exp))
    for name, o in obs:
        print("pycoin  : %-34s %s" % (name, _fmt(o)))
    print("tx unchanged: %s" % (drv.project(tx) == before))
    for dv in term["dev"]:
        print("named deviation %s would give %s" % (dv["name"], _fmt(drv.expected(dv["d"]))))
    if bad or drv.project(tx) != before:
        ctx.fail(obj["key"], obj.get("what", ""), d)
    else:
        print("the request no longer fails")


def run(ctx):
    ctx.rule = ("replay: every (coin, sigversion, #inputs, #outputs, input index, scenario, amount, hash type 0..255) "
                "printed by MC_SighashReplay executed on pycoin; distinct_nontrivial = distinct (coin, sigversion, "
                "hash-type class [low five bits ALL/NONE/SINGLE/other x ANYONECANPAY x FORKID], #in, #out, index, scenario) "
                "plus distinct ground-truth requests and trace shapes")
    ctx.assumptions += [
        "SHA-256 is collision free; the symbolic 32-byte ids are distinct and are not digests (blob equality = byte equality)",
        "script codes are parseable (a script with a truncated push fails evaluation whatever the digest)",
        "signature blobs removed by FindAndDelete are at least 9 bytes long (shorter ones cannot verify)",
        "Bitcoin Gold removes signatures from pre-segwit script code as Bitcoin Core 0.15 does",
        "hash types are bytes 0..255", "TLC/SANY, CPython, hashlib",
    ]
    only = getattr(ctx, "only", None)

    def want(name):
        return only is None or name in only
    if want("model"):
        stage_model(ctx)
    if want("vectors"):
        stage_vectors(ctx)
    if want("replay"):
        stage_replay(ctx)
    if want("history"):
        stage_history(ctx)
    if want("traces"):
        stage_traces(ctx)
    ctx.exhaustive = True
