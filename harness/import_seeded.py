#!/venv/bin/python
"""import_seeded.py <Cnn> <breaker out dir> <summary log> [offset]: copy confirmed seeded changes into /verif/seeded/<Cnn>-<k>/"""
import json, os, re, shutil, sys
pid, out, log = sys.argv[1], sys.argv[2], sys.argv[3]
off = int(sys.argv[4]) if len(sys.argv) > 4 else 0     # second-round changes: number them after the first round
lines = {}
for l in open(log):
    m = re.match(r"(\S+)/(\d+): demo_base=(\d+) demo_patched=(\d+) tests=\[(.*?)\] check_rc=(\d+) violations=(\d+)", l)
    if m and m.group(1) == out:
        lines[int(m.group(2))] = m.groups()
for k, g in sorted(lines.items()):
    src = os.path.join(out, str(k))
    dst = "/verif/seeded/%s-%d" % (pid, k + off)
    os.makedirs(dst, exist_ok=True)
    for f in ("patch.diff", "demo.py"):
        shutil.copy(os.path.join(src, f), os.path.join(dst, f))
    meta = json.load(open(os.path.join(src, "meta.json")))
    keys = []
    cl = os.path.join(src, "check.log")
    if os.path.exists(cl):
        keys = [l.strip()[4:] for l in open(cl) if l.strip().startswith("key=")]
    confirmed = g[2] == "0" and g[3] != "0" and "1822 passed" in g[4]
    meta.update({
        "origin": "written by an independent sub-agent that saw only the property text and a scratch worktree of /repo (nothing from /verif)",
        "confirmed_by_integrator": confirmed,
        "ran": ["demo.py on the unmodified tree: exit %s" % g[2], "demo.py with the patch: exit %s" % g[3],
                "pycoin test suite with the patch: %s" % g[4],
                "VERIF_REPO=<scratch worktree with the patch> ./check %s --tier quick: exit %s, %s VIOLATION lines" % (pid, g[5], g[6])],
        "detected_by_quick_check": g[5] == "1",
        "violation_keys": keys[:12],
    })
    json.dump(meta, open(os.path.join(dst, "meta.json"), "w"), indent=1)
    print(dst, "confirmed" if confirmed else "NOT CONFIRMED", "detected" if g[5] == "1" else "MISSED")
