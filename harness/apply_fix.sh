#!/bin/sh
# apply_fix.sh <CNN-k>: apply /verif/fixes/<id>.diff to /repo, run the repository's tests, commit with <id>.msg
set -e
id="$1"
cd /repo
git apply --check /verif/fixes/$id.diff
git apply /verif/fixes/$id.diff
out=$(/venv/bin/python -m pytest -q -p no:cacheprovider tests --deselect tests/cmds/cmdline_test.py::CmdlineTest::test_tx_ignored_locktime_txt --deselect tests/cmds/cmdline_test.py::CmdlineTest::test_tx_pay_to_opcode_list_txt --deselect tests/cmds/tx_test.py::TxTest::test_tx_fetch_unspent --deselect tests/services/services_test.py::ServicesTest::test_BlockchainInfo 2>&1 | tail -1)
echo "$id: $out"
case "$out" in
  *failed*|*error*) git checkout -- . ; echo "TESTS FAILED - reverted"; exit 1;;
esac
case "$out" in
  *"1822 passed"*) ;;
  *) git checkout -- . ; echo "unexpected pass count - reverted"; exit 1;;
esac
git add -A
git commit -q -F /verif/fixes/$id.msg
git log --oneline | head -1
